"""dom_real.py -- real scalars with uninterpreted transcendental functions + the axioms needed.

exp, log, sqrt, pow, sin, cos, tanh, sigmoid, softplus, erf, lgamma, ... are uninterpreted z3
functions.  The axioms actually used by a run are recorded on the path context
(ctx.axioms) and end up in the evidence; each is a textbook identity of real analysis
(listed there as trusted unless backed by a Lean lemma in lemmas/).
Axioms are *instantiated at the terms that occur* (ground instances) rather than given as
quantified formulas, so every VC stays quantifier-free (decidable fragment + UF + NRA).
"""
from __future__ import annotations

import z3

R = z3.RealSort()
_F = {}


def fn(name, arity=1):
    if name not in _F:
        _F[name] = z3.Function(name, *([R] * arity + [R]))
    return _F[name]


PI = z3.Real("pi")


def pi(ctx):
    """the constant pi; its numeric enclosure is added to the path condition the first time it is used"""
    if ctx is not None and not ctx.ghost.get("pi_bounded"):
        ctx.ghost["pi_bounded"] = True
        ctx.add_axiom(z3.And(PI > z3.RealVal("3.14159265"), PI < z3.RealVal("3.14159266")), "3.14159265 < pi < 3.14159266")
    return PI


def _axioms_for(name, x, fx):
    """ground axiom instances about fx = name(x)"""
    ax = []
    if name == "exp":
        ax.append(("exp(x) > 0", fx > 0))
        ax.append(("exp(0) = 1", z3.Implies(x == 0, fx == 1)))
        ax.append(("exp(x) >= 1 + x", fx >= 1 + x))
    elif name == "log":
        ax.append(("log(1) = 0", z3.Implies(x == 1, fx == 0)))
        ax.append(("log(x) <= x - 1 for x > 0", z3.Implies(x > 0, fx <= x - 1)))
        ax.append(("log(x) > 0 iff x > 1; log(x) < 0 iff 0 < x < 1", z3.And(z3.Implies(x > 1, fx > 0), z3.Implies(z3.And(x > 0, x < 1), fx < 0))))
    elif name == "sqrt":
        ax.append(("sqrt(x) >= 0 and sqrt(x)^2 = x for x >= 0", z3.Implies(x >= 0, z3.And(fx >= 0, fx * fx == x))))
    elif name in ("sin", "cos"):
        ax.append((f"-1 <= {name}(x) <= 1", z3.And(fx >= -1, fx <= 1)))
        if name == "sin":
            ax.append(("sin(0) = 0", z3.Implies(x == 0, fx == 0)))
        else:
            ax.append(("cos(0) = 1", z3.Implies(x == 0, fx == 1)))
    elif name == "sigmoid":
        ax.append(("0 < sigmoid(x) < 1", z3.And(fx > 0, fx < 1)))
    elif name == "softplus":
        ax.append(("softplus(x) > 0 and softplus(x) > x", z3.And(fx > 0, fx > x)))
    elif name == "tanh":
        ax.append(("-1 < tanh(x) < 1", z3.And(fx > -1, fx < 1)))
    elif name == "Phi":
        ax.append(("0 < Phi(x) < 1", z3.And(fx > 0, fx < 1)))
    elif name == "erf":
        ax.append(("-1 < erf(x) < 1", z3.And(fx > -1, fx < 1)))
    return ax


DEFINED = {
    # torch functions that are *defined* through exp / log (so identities between them are visible to
    # the solver and to the CAS back end); float-level shortcuts (Softplus threshold, expm1/log1p
    # accuracy) are rounding-level facts outside the real-number reading
    "sigmoid": lambda ctx, x: 1 / (1 + apply(ctx, "exp", -x)),
    "softplus": lambda ctx, x: apply(ctx, "log", 1 + apply(ctx, "exp", x)),
    "expm1": lambda ctx, x: apply(ctx, "exp", x) - 1,
    "log1p": lambda ctx, x: apply(ctx, "log", 1 + x),
    "logsigmoid": lambda ctx, x: -apply(ctx, "log", 1 + apply(ctx, "exp", -x)),
}


def _small(t, limit=40):
    """is the term DAG smaller than `limit` nodes?"""
    seen, stack = set(), [t]
    while stack:
        y = stack.pop()
        i = y.get_id()
        if i in seen:
            continue
        seen.add(i)
        if len(seen) > limit:
            return False
        stack.extend(y.children())
    return True


def apply(ctx, name, x, axioms=True):
    if name in DEFINED:
        return DEFINED[name](ctx, x)
    f = fn(name)
    fx = f(x)
    if axioms and ctx is not None:
        key = ("realfn", name, x.get_id())
        if key not in ctx.ghost:
            ctx.ghost[key] = x
            for label, a in _axioms_for(name, x, fx):
                ctx.add_axiom(a, label)
            # pairwise axioms with earlier applications of the same / inverse function -- only between small arguments
            # and a bounded number of them (large polynomial arguments would make every later query expensive and
            # are never related by monotonicity in the contracts)
            apps = ctx.ghost.setdefault(("apps", name), [])
            small = _small(x)
            for y in (apps[-8:] if small else []):
                fy = f(y)
                if name in ("exp", "log", "sqrt", "sigmoid", "softplus", "tanh", "Phi", "erf"):
                    dom = z3.And(x > 0, y > 0) if name == "log" else (z3.And(x >= 0, y >= 0) if name == "sqrt" else z3.BoolVal(True))
                    ctx.add_axiom(z3.Implies(dom, z3.And(z3.Implies(x < y, fx < fy), z3.Implies(x == y, fx == fy), z3.Implies(x > y, fx > fy))),
                                  f"{name} is strictly increasing")
            if small:
                apps.append(x)
            inv = {"exp": "log", "log": "exp"}.get(name)
            if inv and small:
                for y in ctx.ghost.get(("apps", inv), [])[-8:]:
                    # y is an argument of inv: inv(y) occurs.  if x == inv(y) then name(x) == y
                    g = fn(inv)
                    if name == "exp":
                        ctx.add_axiom(z3.Implies(z3.And(y > 0, x == g(y)), fx == y), "exp(log(y)) = y for y > 0")
                    else:
                        ctx.add_axiom(z3.Implies(x == g(y), fx == y), "log(exp(y)) = y")
    return fx


def power(ctx, x, y):
    """x ** y for non-literal exponents: uninterpreted with the identities that occur"""
    f = fn("pow", 2)
    r = f(x, y)
    if ctx is not None:
        ctx.add_axiom(z3.Implies(x > 0, r > 0), "x^y > 0 for x > 0")
        ctx.add_axiom(z3.Implies(y == 1, r == x), "x^1 = x")
        ctx.add_axiom(z3.Implies(y == 0, r == 1), "x^0 = 1")
        ctx.add_axiom(z3.Implies(z3.And(y == 2), r == x * x), "x^2 = x*x")
        ctx.add_axiom(z3.Implies(z3.And(y == -1, x != 0), r == 1 / x), "x^-1 = 1/x")
        ctx.add_axiom(z3.Implies(z3.And(y * 2 == 1, x >= 0), z3.And(r >= 0, r * r == x)), "x^(1/2) = sqrt(x)")
    return r


RECIP = z3.Function("recip", R, R)


def recip(ctx, y):
    """1 / y for a non-literal y as the atom recip(y) with  y * recip(y) = 1  (y != 0): keeps quotients polynomial, so that
    sum-of-monomials normalisation treats (a - b)/l and a/l - b/l alike"""
    ys = z3.simplify(y)
    if z3.is_rational_value(ys) or z3.is_int_value(ys):
        return 1 / ys
    r = RECIP(ys)
    if ctx is not None:
        key = ("recip", ys.get_id())
        if key not in ctx.ghost:
            ctx.ghost[key] = ys
            ctx.add_axiom(z3.Implies(ys != 0, ys * r == 1), "y * (1/y) = 1")
            ctx.add_axiom(z3.Implies(ys > 0, r > 0), "1/y > 0 for y > 0")
    return r


def rdiv(ctx, x, y):
    ys = z3.simplify(y)
    if z3.is_rational_value(ys) or z3.is_int_value(ys):
        return x / ys
    return x * recip(ctx, ys)
