"""refute.py -- counter-model search by instantiation (DESIGN 2.4 / 2.7).

A universally quantified VC that fails for concrete small extents is refuted.  After the size symbols are
substituted by literals,
  * reductions SUM(lambda, n) with literal n are unfolded,
  * the linear-algebra functionals INVQUAD / LOGDET / CHOL applied to matrices of literal size 1 or 2 are replaced by
    their explicit closed forms (square roots as fresh positive reals constrained by s*s = x), with the side condition
    that every matrix they are applied to is symmetric positive definite,
so that the query becomes quantifier-free nonlinear real/integer arithmetic, for which `sat` comes with a concrete model.
Only refutations are taken from here (never proofs); each is replayed on the real code before it is reported.
"""
from __future__ import annotations

import itertools
import time

import z3


def unfold_sums(t, limit=4):
    """SUMF_j(c..., n) with a literal n <= limit  ->  body_j[c...](0) + ... + body_j[c...](n-1)"""
    from .dom_elem import SUM_REGISTRY
    cache = {}

    def rec(x):
        i = x.get_id()
        if i in cache:
            return cache[i]
        if z3.is_quantifier(x) or z3.is_var(x):
            cache[i] = x
            return x
        ch = [rec(c) for c in x.children()]
        r = x
        if z3.is_app(x):
            nm = x.decl().name()
            if nm in SUM_REGISTRY and ch:
                n = z3.simplify(ch[-1])
                if z3.is_int_value(n) and 0 <= n.as_long() <= limit:
                    phs, kph, templ = SUM_REGISTRY[nm]
                    zero = z3.RealVal(0) if x.sort() == z3.RealSort() else z3.IntVal(0)
                    r = zero
                    for k in range(n.as_long()):
                        r = r + z3.substitute(templ, *([(p, a) for p, a in zip(phs, ch[:-1])] + [(kph, z3.IntVal(k))]))
                    cache[i] = z3.simplify(r)
                    return cache[i]
            if ch and any(a.get_id() != b.get_id() for a, b in zip(ch, x.children())):
                try:
                    r = x.decl()(*ch)
                except Exception:
                    r = x
        cache[i] = r
        return r

    return rec(t)


class Interp:
    """closed forms of the matrix functionals for n in {1, 2}"""

    def __init__(self):
        self.side = []
        self.memo = {}
        self.k = 0

    def fresh_pos_sqrt(self, x):
        key = ("sqrt", z3.simplify(x).get_id())
        if key in self.memo:
            return self.memo[key][0]
        self.k += 1
        s = z3.Real(f"sq!{self.k}")
        self.side += [s > 0, s * s == x]
        self.memo[key] = (s, x)
        return s

    def entries(self, M, n):
        e = {}
        for i in range(n):
            for j in range(n):
                e[(i, j)] = z3.simplify(z3.Select(z3.Select(M, z3.IntVal(i)), z3.IntVal(j)))
        key = ("pd", M.get_id(), n)
        if key not in self.memo:
            self.memo[key] = True
            if n == 1:
                self.side.append(e[(0, 0)] > 0)
            else:
                self.side += [e[(0, 0)] > 0, e[(0, 1)] == e[(1, 0)], e[(0, 0)] * e[(1, 1)] - e[(0, 1)] * e[(1, 0)] > 0]
        return e

    def vec(self, v, n):
        return [z3.simplify(z3.Select(v, z3.IntVal(i))) for i in range(n)]

    def chol(self, M, n, i, j):
        e = self.entries(M, n)
        if n == 1:
            return z3.If(z3.And(i == 0, j == 0), self.fresh_pos_sqrt(e[(0, 0)]), z3.RealVal(0))
        l00 = self.fresh_pos_sqrt(e[(0, 0)])
        l10 = e[(1, 0)] / l00
        l11 = self.fresh_pos_sqrt(e[(1, 1)] - l10 * l10)
        return z3.If(z3.And(i == 0, j == 0), l00, z3.If(z3.And(i == 1, j == 0), l10, z3.If(z3.And(i == 1, j == 1), l11, z3.RealVal(0))))

    def invquad(self, M, v, n):
        e = self.entries(M, n)
        x = self.vec(v, n)
        if n == 1:
            return x[0] * x[0] / e[(0, 0)]
        det = e[(0, 0)] * e[(1, 1)] - e[(0, 1)] * e[(1, 0)]
        return (e[(1, 1)] * x[0] * x[0] - (e[(0, 1)] + e[(1, 0)]) * x[0] * x[1] + e[(0, 0)] * x[1] * x[1]) / det

    def logdet(self, M, n):
        e = self.entries(M, n)
        det = e[(0, 0)] if n == 1 else e[(0, 0)] * e[(1, 1)] - e[(0, 1)] * e[(1, 0)]
        LOGF = z3.Function("log", z3.RealSort(), z3.RealSort())
        return LOGF(z3.simplify(det))


def interpret_functionals(t):
    ip = Interp()
    cache = {}

    def lit(x):
        x = z3.simplify(x)
        return x.as_long() if z3.is_int_value(x) else None

    def rec(x):
        i = x.get_id()
        if i in cache:
            return cache[i]
        if z3.is_quantifier(x) or z3.is_var(x):
            cache[i] = x
            return x
        ch = [rec(c) for c in x.children()]
        r = x
        if z3.is_app(x):
            nm = x.decl().name()
            done = False
            if nm == "CHOL" and lit(ch[1]) in (1, 2):
                r, done = ip.chol(ch[0], lit(ch[1]), ch[2], ch[3]), True
            elif nm == "INVQUAD" and lit(ch[2]) in (1, 2):
                r, done = ip.invquad(ch[0], ch[1], lit(ch[2])), True
            elif nm == "LOGDET" and lit(ch[1]) in (1, 2):
                r, done = ip.logdet(ch[0], lit(ch[1])), True
            if not done and ch and any(a.get_id() != b.get_id() for a, b in zip(ch, x.children())):
                try:
                    r = x.decl()(*ch)
                except Exception:
                    r = x
        cache[i] = r
        return r

    out = rec(t)
    return out, ip.side


def _occurs(term, consts):
    ids = {c.get_id(): k for k, c in consts.items()}
    found, seen, stack = set(), set(), [term]
    while stack:
        x = stack.pop()
        i = x.get_id()
        if i in seen:
            continue
        seen.add(i)
        if i in ids:
            found.add(ids[i])
        if z3.is_quantifier(x):
            stack.append(x.body())
        else:
            stack.extend(x.children())
    return found


def _free_real_consts(term, limit=3):
    out, seen, stack = [], set(), [term]
    while stack:
        x = stack.pop()
        i = x.get_id()
        if i in seen:
            continue
        seen.add(i)
        if z3.is_quantifier(x):
            stack.append(x.body())
            continue
        if z3.is_const(x) and x.decl().kind() == z3.Z3_OP_UNINTERPRETED and x.sort() == z3.RealSort() \
                and x.decl().name() not in ("pi", "INF") and "!" not in x.decl().name():
            out.append(x)
        stack.extend(x.children())
    return out[:limit]


class _NoEval(Exception):
    pass


def numeric_eval(t, env):
    """value of a ground z3 term under the STANDARD interpretation of exp / log / sqrt / recip / sin / cos / tanh / Phi / erf
    / pow and pi (mpmath, 40 digits); raises _NoEval for anything else (uninterpreted symbols of the contract)"""
    import mpmath
    mpmath.mp.dps = 40
    cache = {}

    def ev(x):
        i = x.get_id()
        if i in cache:
            return cache[i]
        r = ev1(x)
        cache[i] = r
        return r

    def ev1(x):
        if z3.is_int_value(x):
            return mpmath.mpf(x.as_long())
        if z3.is_rational_value(x):
            f = x.as_fraction()
            return mpmath.mpf(f.numerator) / mpmath.mpf(f.denominator)
        if z3.is_true(x):
            return True
        if z3.is_false(x):
            return False
        if not z3.is_app(x):
            raise _NoEval(str(x)[:40])
        k = x.decl().kind()
        nm = x.decl().name()
        ch = x.children()
        if k == z3.Z3_OP_UNINTERPRETED:
            if not ch:
                if nm in env:
                    return env[nm]
                if nm == "pi":
                    return mpmath.pi
                if nm == "INF":
                    return mpmath.mpf(10) ** 300
                # a symbol the obligation itself does not constrain through `env`: any fixed value will do, as long as the
                # whole path condition evaluates to true with it
                if x.sort() == z3.IntSort():
                    return mpmath.mpf(env.get("__default_int__", 2))
                if x.sort() == z3.RealSort():
                    return mpmath.mpf(env.get("__default_real__", "0.37"))
                raise _NoEval(nm)
            a = [ev(c) for c in ch]
            table = {"exp": mpmath.exp, "log": mpmath.log, "sqrt": mpmath.sqrt, "sin": mpmath.sin, "cos": mpmath.cos, "tanh": mpmath.tanh,
                     "erf": mpmath.erf, "recip": lambda v: 1 / v, "Phi": lambda v: mpmath.ncdf(v), "pow": lambda u, v: mpmath.power(u, v)}
            if nm in table:
                v = table[nm](*a)
                if isinstance(v, mpmath.mpc):
                    raise _NoEval("complex value")
                return v
            raise _NoEval(nm)
        a = None
        if k == z3.Z3_OP_ITE:
            return ev(ch[1]) if ev(ch[0]) else ev(ch[2])
        if k == z3.Z3_OP_AND:
            return all(ev(c) for c in ch)
        if k == z3.Z3_OP_OR:
            return any(ev(c) for c in ch)
        if k == z3.Z3_OP_NOT:
            return not ev(ch[0])
        if k == z3.Z3_OP_IMPLIES:
            return (not ev(ch[0])) or ev(ch[1])
        a = [ev(c) for c in ch]
        if k == z3.Z3_OP_ADD:
            return sum(a[1:], a[0])
        if k == z3.Z3_OP_MUL:
            r = a[0]
            for v in a[1:]:
                r = r * v
            return r
        if k == z3.Z3_OP_SUB:
            r = a[0]
            for v in a[1:]:
                r = r - v
            return r
        if k == z3.Z3_OP_UMINUS:
            return -a[0]
        if k == z3.Z3_OP_DIV:
            if a[1] == 0:
                raise _NoEval("division by zero")
            return a[0] / a[1]
        if k == z3.Z3_OP_POWER:
            return mpmath.power(a[0], a[1])
        if k == z3.Z3_OP_TO_REAL:
            return a[0]
        tol = mpmath.mpf(10) ** -25
        if k == z3.Z3_OP_EQ:
            if isinstance(a[0], bool):
                return a[0] == a[1]
            return abs(a[0] - a[1]) <= tol * max(1, abs(a[0]), abs(a[1]))
        if k == z3.Z3_OP_DISTINCT:
            return abs(a[0] - a[1]) > tol * max(1, abs(a[0]), abs(a[1]))
        if k == z3.Z3_OP_LE:
            return a[0] <= a[1]
        if k == z3.Z3_OP_LT:
            return a[0] < a[1]
        if k == z3.Z3_OP_GE:
            return a[0] >= a[1]
        if k == z3.Z3_OP_GT:
            return a[0] > a[1]
        raise _NoEval(nm)

    return ev(t)


def refute_numerically(pc, formula, symbols):
    """sample the (few) real inputs and evaluate the whole VC numerically under the standard interpretation; a sample that
    satisfies every evaluable path-condition conjunct and falsifies the obligation by a margin >> rounding is a counterexample.
    Path-condition conjuncts that mention contract-level uninterpreted symbols cannot be evaluated: then no verdict."""
    import mpmath
    cs = _free_real_consts(formula, limit=4)
    if not cs:
        return None
    pool = ["-2.5", "-1.5", "-0.5", "0.1", "0.7", "1.3", "2.5"]
    big_tol = mpmath.mpf(10) ** -9
    for combo in itertools.islice(itertools.product(pool, repeat=len(cs)), 400):
        env = {c.decl().name(): mpmath.mpf(v) for c, v in zip(cs, combo)}
        try:
            if not all(numeric_eval(p, env) for p in pc):
                continue
            f = formula
            ok = numeric_eval(f, env)
        except (_NoEval, ZeroDivisionError, ValueError, OverflowError):
            continue
        if ok is False:
            # insist on a clear margin for equalities
            if z3.is_eq(f):
                try:
                    l, r = numeric_eval(f.children()[0], env), numeric_eval(f.children()[1], env)
                    if not isinstance(l, bool) and abs(l - r) <= big_tol * max(1, abs(l), abs(r)):
                        continue
                except _NoEval:
                    continue
            md = {n: float(v) for n, v in env.items()}
            md["__sampled__"] = dict(md)
            return md
    return None


def refute_by_sampling(pc, formula, symbols, model_value, budget_s=30):
    """no size symbols: try a few concrete values for the (few) real inputs the obligation mentions; the remaining
    query (uninterpreted exp/log/sqrt constrained by their ground axioms) is quantifier-free and usually easy"""
    t0 = time.time()
    whole = z3.And(*pc, z3.Not(formula))
    cs = _free_real_consts(formula)
    if not cs:
        return None
    pool = ["-2", "-1.5", "-0.5", "0.1", "0.7", "2.5"]
    for combo in itertools.product(pool, repeat=len(cs)):
        if time.time() - t0 > budget_s:
            break
        sub = [(c, z3.RealVal(v)) for c, v in zip(cs, combo)]
        s = z3.Solver()
        s.set("timeout", 4000)
        s.add(z3.simplify(z3.substitute(whole, *sub)))
        if s.check() == z3.sat:
            m = s.model()
            md = {}
            for n, t in symbols.items():
                if n.startswith("__"):
                    continue
                try:
                    md[n] = model_value(m, z3.substitute(t, *sub))
                except Exception as e:  # pragma: no cover
                    md[n] = f"<{e}>"
            for c, v in zip(cs, combo):
                md[c.decl().name()] = float(v)
            md["__sampled__"] = {c.decl().name(): float(v) for c, v in zip(cs, combo)}
            return md
    return None


def refute_small(pc, formula, sizes, symbols, model_value, budget_s=60, values=(1, 2, 3), aux=None):
    t0 = time.time()
    names = list(sizes)
    whole = z3.And(*pc, z3.Not(formula))
    # definitional extents (slice counts / starts / steps) that occur in the obligation itself
    aux = aux or {}
    auxc = {k: v for k, (nm, v) in aux.items()}
    used = sorted(_occurs(formula, auxc))[:4]
    aux_vals = {"sl_count": (1, 2), "sl_start": (0, 1), "sl_step": (1, 2), "si_start": (0, 1), "si_stop": (1, 2), "si_step": (1, 2)}
    aux_names = used
    aux_choices = [aux_vals.get(aux[k][0], (1, 2)) for k in aux_names]
    base = list(itertools.product(values, repeat=len(names)))
    base.sort(key=lambda c: (max(c) if c else 0, sum(c)))
    combos = []
    for b in base[:27]:
        if aux_names:
            for a in itertools.product(*aux_choices):
                combos.append((b, a))
        else:
            combos.append((b, ()))
    for combo, acombo in combos[:240]:
        if time.time() - t0 > budget_s:
            break
        sub = [(sizes[n], z3.IntVal(v)) for n, v in zip(names, combo)] + [(auxc[k], z3.IntVal(v)) for k, v in zip(aux_names, acombo)]
        try:
            f2 = z3.simplify(z3.substitute(whole, *sub)) if sub else z3.simplify(whole)
            for _ in range(4):
                f3 = z3.simplify(unfold_sums(f2))
                if f3.eq(f2):
                    break
                f2 = f3
            f2, side = interpret_functionals(f2)
            f2 = z3.simplify(f2)
            for _ in range(3):
                f3 = z3.simplify(unfold_sums(f2))
                if f3.eq(f2):
                    break
                f2 = f3
        except z3.Z3Exception:
            continue
        s = z3.Solver()
        s.set("timeout", 6000)
        s.add(f2)
        s.add(*side)
        if s.check() == z3.sat:
            m = s.model()
            md = {}
            for n, t in symbols.items():
                if n.startswith("__"):
                    continue
                try:
                    md[n] = model_value(m, z3.substitute(t, *sub) if sub else t)
                except Exception as e:  # pragma: no cover
                    md[n] = f"<{e}>"
            for n, v in zip(names, combo):
                md[n] = v
            md["__instantiated__"] = dict(zip(names, combo))
            return md
    return None
