"""refute.py -- counter-model search by instantiation (DESIGN 2.4 / 2.7).

A universally quantified VC that fails for concrete small extents is refuted.  After the size symbols are
substituted by literals,
  * reductions SUM(lambda, n) with literal n are unfolded,
  * the linear-algebra functionals INVQUAD / LOGDET / CHOL applied to matrices of literal size 1 or 2 are replaced by
    their explicit closed forms (square roots as fresh positive reals constrained by s*s = x), with the side condition
    that every matrix they are applied to is symmetric positive definite,
so that the query becomes quantifier-free nonlinear real/integer arithmetic, for which `sat` comes with a concrete model.
Only refutations are taken from here (never proofs); each is replayed on the real code before it is reported.
"""
from __future__ import annotations

import itertools
import time

import z3


def unfold_sums(t, limit=4):
    """SUMF_j(c..., n) with a literal n <= limit  ->  body_j[c...](0) + ... + body_j[c...](n-1)"""
    from .dom_elem import SUM_REGISTRY
    cache = {}

    def rec(x):
        i = x.get_id()
        if i in cache:
            return cache[i]
        if z3.is_quantifier(x) or z3.is_var(x):
            cache[i] = x
            return x
        ch = [rec(c) for c in x.children()]
        r = x
        if z3.is_app(x):
            nm = x.decl().name()
            if nm in SUM_REGISTRY and ch:
                n = z3.simplify(ch[-1])
                if z3.is_int_value(n) and 0 <= n.as_long() <= limit:
                    phs, kph, templ = SUM_REGISTRY[nm]
                    zero = z3.RealVal(0) if x.sort() == z3.RealSort() else z3.IntVal(0)
                    r = zero
                    for k in range(n.as_long()):
                        r = r + z3.substitute(templ, *([(p, a) for p, a in zip(phs, ch[:-1])] + [(kph, z3.IntVal(k))]))
                    cache[i] = z3.simplify(r)
                    return cache[i]
            if ch and any(a.get_id() != b.get_id() for a, b in zip(ch, x.children())):
                try:
                    r = x.decl()(*ch)
                except Exception:
                    r = x
        cache[i] = r
        return r

    return rec(t)


class Interp:
    """closed forms of the matrix functionals for n in {1, 2}"""

    def __init__(self):
        self.side = []
        self.memo = {}
        self.k = 0

    def fresh_pos_sqrt(self, x):
        key = ("sqrt", z3.simplify(x).get_id())
        if key in self.memo:
            return self.memo[key][0]
        self.k += 1
        s = z3.Real(f"sq!{self.k}")
        self.side += [s > 0, s * s == x]
        self.memo[key] = (s, x)
        return s

    def entries(self, M, n):
        e = {}
        for i in range(n):
            for j in range(n):
                e[(i, j)] = z3.simplify(z3.Select(z3.Select(M, z3.IntVal(i)), z3.IntVal(j)))
        key = ("pd", M.get_id(), n)
        if key not in self.memo:
            self.memo[key] = True
            if n == 1:
                self.side.append(e[(0, 0)] > 0)
            else:
                self.side += [e[(0, 0)] > 0, e[(0, 1)] == e[(1, 0)], e[(0, 0)] * e[(1, 1)] - e[(0, 1)] * e[(1, 0)] > 0]
        return e

    def vec(self, v, n):
        return [z3.simplify(z3.Select(v, z3.IntVal(i))) for i in range(n)]

    def chol(self, M, n, i, j):
        e = self.entries(M, n)
        if n == 1:
            return z3.If(z3.And(i == 0, j == 0), self.fresh_pos_sqrt(e[(0, 0)]), z3.RealVal(0))
        l00 = self.fresh_pos_sqrt(e[(0, 0)])
        l10 = e[(1, 0)] / l00
        l11 = self.fresh_pos_sqrt(e[(1, 1)] - l10 * l10)
        return z3.If(z3.And(i == 0, j == 0), l00, z3.If(z3.And(i == 1, j == 0), l10, z3.If(z3.And(i == 1, j == 1), l11, z3.RealVal(0))))

    def invquad(self, M, v, n):
        e = self.entries(M, n)
        x = self.vec(v, n)
        if n == 1:
            return x[0] * x[0] / e[(0, 0)]
        det = e[(0, 0)] * e[(1, 1)] - e[(0, 1)] * e[(1, 0)]
        return (e[(1, 1)] * x[0] * x[0] - (e[(0, 1)] + e[(1, 0)]) * x[0] * x[1] + e[(0, 0)] * x[1] * x[1]) / det

    def logdet(self, M, n):
        e = self.entries(M, n)
        det = e[(0, 0)] if n == 1 else e[(0, 0)] * e[(1, 1)] - e[(0, 1)] * e[(1, 0)]
        LOGF = z3.Function("log", z3.RealSort(), z3.RealSort())
        return LOGF(z3.simplify(det))


def interpret_functionals(t):
    ip = Interp()
    cache = {}

    def lit(x):
        x = z3.simplify(x)
        return x.as_long() if z3.is_int_value(x) else None

    def rec(x):
        i = x.get_id()
        if i in cache:
            return cache[i]
        if z3.is_quantifier(x) or z3.is_var(x):
            cache[i] = x
            return x
        ch = [rec(c) for c in x.children()]
        r = x
        if z3.is_app(x):
            nm = x.decl().name()
            done = False
            if nm == "CHOL" and lit(ch[1]) in (1, 2):
                r, done = ip.chol(ch[0], lit(ch[1]), ch[2], ch[3]), True
            elif nm == "INVQUAD" and lit(ch[2]) in (1, 2):
                r, done = ip.invquad(ch[0], ch[1], lit(ch[2])), True
            elif nm == "LOGDET" and lit(ch[1]) in (1, 2):
                r, done = ip.logdet(ch[0], lit(ch[1])), True
            if not done and ch and any(a.get_id() != b.get_id() for a, b in zip(ch, x.children())):
                try:
                    r = x.decl()(*ch)
                except Exception:
                    r = x
        cache[i] = r
        return r

    out = rec(t)
    return out, ip.side


def _occurs(term, consts):
    ids = {c.get_id(): k for k, c in consts.items()}
    found, seen, stack = set(), set(), [term]
    while stack:
        x = stack.pop()
        i = x.get_id()
        if i in seen:
            continue
        seen.add(i)
        if i in ids:
            found.add(ids[i])
        if z3.is_quantifier(x):
            stack.append(x.body())
        else:
            stack.extend(x.children())
    return found


def refute_small(pc, formula, sizes, symbols, model_value, budget_s=60, values=(1, 2, 3), aux=None):
    t0 = time.time()
    names = list(sizes)
    whole = z3.And(*pc, z3.Not(formula))
    # definitional extents (slice counts / starts / steps) that occur in the obligation itself
    aux = aux or {}
    auxc = {k: v for k, (nm, v) in aux.items()}
    used = sorted(_occurs(formula, auxc))[:4]
    aux_vals = {"sl_count": (1, 2), "sl_start": (0, 1), "sl_step": (1, 2), "si_start": (0, 1), "si_stop": (1, 2), "si_step": (1, 2)}
    aux_names = used
    aux_choices = [aux_vals.get(aux[k][0], (1, 2)) for k in aux_names]
    base = list(itertools.product(values, repeat=len(names)))
    base.sort(key=lambda c: (max(c) if c else 0, sum(c)))
    combos = []
    for b in base[:27]:
        if aux_names:
            for a in itertools.product(*aux_choices):
                combos.append((b, a))
        else:
            combos.append((b, ()))
    for combo, acombo in combos[:240]:
        if time.time() - t0 > budget_s:
            break
        sub = [(sizes[n], z3.IntVal(v)) for n, v in zip(names, combo)] + [(auxc[k], z3.IntVal(v)) for k, v in zip(aux_names, acombo)]
        try:
            f2 = z3.simplify(z3.substitute(whole, *sub)) if sub else z3.simplify(whole)
            for _ in range(4):
                f3 = z3.simplify(unfold_sums(f2))
                if f3.eq(f2):
                    break
                f2 = f3
            f2, side = interpret_functionals(f2)
            f2 = z3.simplify(f2)
            for _ in range(3):
                f3 = z3.simplify(unfold_sums(f2))
                if f3.eq(f2):
                    break
                f2 = f3
        except z3.Z3Exception:
            continue
        s = z3.Solver()
        s.set("timeout", 6000)
        s.add(f2)
        s.add(*side)
        if s.check() == z3.sat:
            m = s.model()
            md = {}
            for n, t in symbols.items():
                if n.startswith("__"):
                    continue
                try:
                    md[n] = model_value(m, z3.substitute(t, *sub) if sub else t)
                except Exception as e:  # pragma: no cover
                    md[n] = f"<{e}>"
            for n, v in zip(names, combo):
                md[n] = v
            md["__instantiated__"] = dict(zip(names, combo))
            return md
    return None
