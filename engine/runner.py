"""runner.py -- cases (contract harnesses), obligation solving, verdict protocol, replay,
known findings, evidence.  See DESIGN.md sections 2.7, 2.8 and 8.

Exit codes of `check`: 0 held, 1 violation (VIOLATION line printed), 3 checker crash.
`unknown`, time-outs and unsupported constructs are *undecided*: listed, never a violation.
"""
from __future__ import annotations

import hashlib
import importlib
import json
import multiprocessing as mp
import os
import re
import subprocess
import sys
import tempfile
import time
import traceback

import z3

from . import optable_core
from .extract import REPO, RepoIndex
from .symexec import Ctx, Interp, PathLimit, explore
from .values import NONE, PyRaise, Undecided, V, VAny, VBool, VClass, VExc, VFunc, VNum, Val, atom_name

VERIF = os.path.dirname(os.path.dirname(os.path.abspath(__file__)))

CASES = {}  # prop -> list[CaseDef]


class CaseDef:
    def __init__(self, prop, name, fn, functions=(), expand=None, tier="quick", timeout=120, replay=None,
                 clause=None, max_paths=4096, solver_timeout=20000, must_cover=()):
        self.prop, self.name, self.fn = prop, name, fn
        self.functions = list(functions)
        self.expand = expand
        self.tier = tier
        self.timeout = timeout
        self.replay = replay
        self.clause = clause
        self.max_paths = max_paths
        self.solver_timeout = solver_timeout
        self.must_cover = tuple(must_cover)


def case(prop, functions=(), expand=None, tier="quick", timeout=120, replay=None, clause=None, name=None,
         max_paths=4096, solver_timeout=20000, must_cover=()):
    def deco(fn):
        cd = CaseDef(prop, name or fn.__name__, fn, functions, expand, tier, timeout, replay, clause, max_paths,
                     solver_timeout, must_cover)
        CASES.setdefault(prop, []).append(cd)
        return fn

    return deco


class CaseAPI:
    """what a contract harness sees"""

    def __init__(self, ctx: Ctx, it: Interp, case_id, symbols):
        self.ctx, self.it, self.case_id = ctx, it, case_id
        self.symbols = symbols  # name -> z3 const (shared list across paths by name)
        self.covers = set()
        self.info = {}
        self.size_syms = symbols.setdefault("__sizes__", {}) if isinstance(symbols, dict) else {}

    # --- symbolic inputs ---------------------------------------------------------------
    def _reg(self, name, t):
        self.symbols[name] = t
        return t

    def int(self, name):
        return VNum(self._reg(name, z3.Int(name)))

    def real(self, name):
        return VNum(self._reg(name, z3.Real(name)))

    def size(self, name, minimum=1):
        """a symbolic extent (>= minimum); marked so that `unknown` VCs can be refuted by instantiating it small"""
        v = self.int(name)
        self.assume(v.t >= minimum)
        self.size_syms[name] = v.t
        return v

    def bool(self, name):
        return VBool(self._reg(name, z3.Bool(name)))

    def any(self, name):
        return VAny(self._reg(name, z3.Const(name, Val)))

    def opt_int(self, name):
        """None or int, as a Val-typed `any` restricted to those two kinds with an integral payload"""
        v = self.any(name)
        i = z3.Int(name + "$i")
        self.symbols[name + "$i"] = i
        self.assume(z3.Or(Val.is_none(v.t), z3.And(Val.is_R(v.t), Val.r(v.t) == z3.ToReal(i))))
        return OptInt(v.t, i)

    # --- logic ----------------------------------------------------------------------------
    def assume(self, f, why=None):
        self.ctx.assume(f, why)

    def prove(self, clause, f, **info):
        self.ctx.prove(f"{self.case_id}:{clause}", f, info)

    def prove_lemma(self, clause, lean_file, theorem):
        """a lemma over the contracts, stated and proved in Lean 4 / Mathlib (lean/<file>): checked by running `lean` on the file on every run; accepted
        only if Lean exits 0, reports no error / sorry, and `#print axioms <theorem>` lists nothing beyond propext, Classical.choice, Quot.sound.
        A failing lemma makes the obligation undecided (a proof failure is not a counterexample)."""
        self.ctx.prove(f"{self.case_id}:{clause}", z3.BoolVal(True), {"_lean": (lean_file, theorem)})

    def prove_identity(self, clause, lhs, rhs, assumptions=None, cas_first=False, **info):
        """lhs == rhs between real terms; if the SMT solver cannot close it, the CAS back end
        (sympy, see engine/cas.py) is asked; `assumptions`: {symbol name: {positive: True, range: (a, b)}}"""
        info = dict(info)
        info["_cas"] = (lhs, rhs, assumptions or {})
        info["_cas_first"] = cas_first
        self.ctx.prove(f"{self.case_id}:{clause}", lhs == rhs, info)

    def instantiate_facts(self, index_tuples):
        """instantiate the universally valid facts recorded by any()/all() reductions at the given index tuples"""
        for natoms, fact in self.ctx.ghost.get("forall_facts", []):
            for idx in index_tuples:
                if len(idx) == natoms:
                    self.ctx.assume(fact(idx))

    def cover(self, label):
        self.covers.add(label)
        self.ctx.ghost.setdefault("covers", set()).add(label)

    def fail(self, clause, why=""):
        self.ctx.prove(f"{self.case_id}:{clause}", z3.BoolVal(False), {"why": why})

    # --- code under contract --------------------------------------------------------------
    def func(self, qualname):
        return VFunc(self.it.index.get_function(qualname))

    def cls(self, qualname):
        return VClass(self.it.index.get_class(qualname))

    def call(self, f, *args, **kwargs):
        if isinstance(f, str):
            f = self.func(f)
        return self.it.call(self.ctx, f, list(args), kwargs)

    def raises(self, thunk):
        """run thunk; returns the VExc if the analysed code raised, else None (value in .last)"""
        try:
            self.last = thunk()
            return None
        except PyRaise as pr:
            return pr.exc

    def getattr(self, v, name):
        return v.py_getattr(self.it, self.ctx, name)

    def eq(self, a, b):
        r = self.it.eq(self.ctx, a, b)
        return z3.BoolVal(r) if isinstance(r, bool) else r

    def truth_term(self, v):
        t = v.py_truthy(self.it, self.ctx)
        return z3.BoolVal(t) if isinstance(t, bool) else t


class OptInt(VAny):
    """None-or-int value: forcing yields an *integer* VNum"""

    def __init__(self, t, i):
        super().__init__(t)
        self.i = i

    def force(self, it, ctx):
        if ctx.branch(Val.is_none(self.t)):
            return NONE
        return VNum(self.i)


# ------------------------------------------------------------------------------- models ----
def model_value(m, t):
    v = m.eval(t, model_completion=True)
    return z3_to_py(v)


def z3_to_py(v):
    if z3.is_int_value(v):
        return v.as_long()
    if z3.is_rational_value(v):
        f = v.as_fraction()
        return float(f) if f.denominator != 1 else float(f.numerator)
    if z3.is_algebraic_value(v):
        return float(v.approx(12).as_fraction())
    if z3.is_true(v):
        return True
    if z3.is_false(v):
        return False
    if v.sort() == Val:
        d = v.decl().name()
        if d == "none":
            return None
        if d == "B":
            return z3_to_py(v.arg(0))
        if d == "R":
            f = v.arg(0)
            if z3.is_rational_value(f):
                fr = f.as_fraction()
                return int(fr) if fr.denominator == 1 else float(fr)
            return z3_to_py(f)
        if d == "S":
            i = z3_to_py(v.arg(0))
            n = atom_name(i)
            return {"atom": n}
    return str(v)


# ------------------------------------------------------------------------- solving one VC ----
_LEAN_RUNS = {}


def run_lean(lean_file, theorem):
    import re
    import shutil
    import subprocess
    path = os.path.join(os.path.dirname(os.path.dirname(os.path.abspath(__file__))), "lean", lean_file)
    t0 = time.time()
    if shutil.which("lean") is None or not os.path.exists(path):
        return "unknown", 0.0, "lean or the lemma file is not available"
    key = (path, os.path.getmtime(path))
    if key not in _LEAN_RUNS:
        try:
            p = subprocess.run(["lean", path], capture_output=True, text=True, timeout=900)
        except subprocess.TimeoutExpired:
            return "unknown", time.time() - t0, "lean timed out"
        _LEAN_RUNS[key] = p
    p = _LEAN_RUNS[key]
    out = (p.stdout or "") + (p.stderr or "")
    m = re.search(r"'" + re.escape(theorem) + r"' depends on axioms: \[([^\]]*)\]", out)
    axioms = [x.strip() for x in m.group(1).split(",")] if m else None
    no_ax = re.search(r"'" + re.escape(theorem) + r"' does not depend on any axioms", out) is not None
    ok = p.returncode == 0 and ": error" not in out and "sorry" not in out and (no_ax or (axioms is not None and set(axioms) <= {"propext", "Classical.choice", "Quot.sound"}))
    return ("unsat" if ok else "unknown"), time.time() - t0, out.strip()[-600:]


def solve_vc(pc, formula, timeout_ms, symbols):
    """returns (status, model_dict|None, seconds, backend) ; status in unsat/sat/unknown.
    Portfolio: z3 default -> z3 `qfnia` tactic (nonlinear integer VCs) -> cvc5; `unknown` from all = undecided."""
    t0 = time.time()

    def model_of(s):
        m = s.model()
        md = {}
        for n, t in symbols.items():
            if n.startswith("__"):
                continue
            try:
                md[n] = model_value(m, t)
            except Exception as e:  # pragma: no cover
                md[n] = f"<{e}>"
        return md

    first_budget = min(timeout_ms, 4000)  # a short first attempt: VCs the default tactic stalls on often fall to qfnia at once
    s = z3.Solver()
    s.set("timeout", first_budget)
    s.add(*pc)
    s.add(z3.Not(formula))
    r = s.check()
    if r == z3.unsat:
        return "unsat", None, time.time() - t0, "z3"
    if r == z3.sat:
        return "sat", model_of(s), time.time() - t0, "z3"
    # the default tactic is order-sensitive: the same VC built with another allocation order of its terms can take 0.1 s or minutes.  Before anything expensive,
    # a few short re-seeded attempts with the assertions rotated (same formulas, so any answer is as good as the first attempt's)
    body = list(pc) + [z3.Not(formula)]
    for seed in (1, 2, 3):
        sr = z3.Solver()
        sr.set("timeout", first_budget)
        sr.set("random_seed", seed)
        k = (seed * 7) % max(len(body), 1)
        sr.add(*(body[k:] + body[:k]))
        rr = sr.check()
        if rr == z3.unsat:
            return "unsat", None, time.time() - t0, "z3"
        if rr == z3.sat:
            return "sat", model_of(sr), time.time() - t0, "z3"
    # cheap first: numeric evaluation of the whole VC at a few sampled real inputs (standard interpretation of exp/log/...)
    try:
        from .refute import refute_numerically
        md = refute_numerically(pc, formula, symbols)
        if md is not None:
            return "sat", md, time.time() - t0, "numeric-sampling"
    except Exception:
        pass
    try:
        s2 = z3.Tactic("qfnia").solver()
        s2.set("timeout", timeout_ms)
        s2.add(*pc)
        s2.add(z3.Not(formula))
        r2 = s2.check()
        if r2 == z3.unsat:
            return "unsat", None, time.time() - t0, "z3-qfnia"
        if r2 == z3.sat:
            # confirm the model against the original formula before trusting it
            m = s2.model()
            ok = all(z3.is_true(m.eval(f, model_completion=True)) for f in pc) and z3.is_false(m.eval(formula, model_completion=True))
            if ok:
                return "sat", model_of(s2), time.time() - t0, "z3-qfnia"
    except z3.Z3Exception:
        pass
    if first_budget < timeout_ms:  # the default tactic again, with the full budget
        s = z3.Solver()
        s.set("timeout", timeout_ms)
        s.add(*pc)
        s.add(z3.Not(formula))
        r = s.check()
        if r == z3.unsat:
            return "unsat", None, time.time() - t0, "z3"
        if r == z3.sat:
            return "sat", model_of(s), time.time() - t0, "z3"
    st, _ = cvc5_check(s, timeout_ms)
    if st == "unsat":
        return "unsat", None, time.time() - t0, "cvc5"
    # refutation by instantiation: a universally quantified VC that fails for concrete small extents is refuted
    sizes = symbols.get("__sizes__", {})
    if sizes:
        from .refute import refute_small
        md = refute_small(pc, formula, sizes, symbols, model_value, aux=symbols.get("__aux_sizes__", {}))
        if md is not None:
            return "sat", md, time.time() - t0, "z3-instantiated"
    else:
        from .refute import refute_by_sampling
        md = refute_by_sampling(pc, formula, symbols, model_value)
        if md is not None:
            return "sat", md, time.time() - t0, "z3-sampled"
    return "unknown", None, time.time() - t0, "z3+qfnia+cvc5"


def cvc5_check(solver, timeout_ms):
    t0 = time.time()
    try:
        smt = solver.to_smt2()
        smt = "(set-logic ALL)\n" + smt
        with tempfile.NamedTemporaryFile("w", suffix=".smt2", delete=False) as f:
            f.write(smt)
            path = f.name
        try:
            out = subprocess.run(
                ["/usr/bin/cvc5", f"--tlimit={timeout_ms}", "--nl-cov", path],
                capture_output=True, text=True, timeout=timeout_ms / 1000 + 5,
            ).stdout.strip().splitlines()
        finally:
            os.unlink(path)
        st = out[0] if out else "unknown"
        return (st if st in ("sat", "unsat") else "unknown"), time.time() - t0
    except Exception:
        return "unknown", time.time() - t0


# ------------------------------------------------------------------------- running a case ----
def make_interp(index=None):
    index = index or RepoIndex()
    optable = dict(optable_core.T)
    for modname in ("engine.optable_torch", "engine.optable_nn"):
        try:
            mod = importlib.import_module(modname)
            optable.update(mod.T)
        except ModuleNotFoundError:
            pass
    return Interp(index, optable)


def run_case(cd: CaseDef, params, case_id):
    """executed in a child process; returns a JSON-able dict"""
    t0 = time.time()
    out = {
        "case": case_id, "prop": cd.prop, "clause": cd.clause, "functions": list(cd.functions), "obligations": {},
        "paths": 0, "undecided_paths": [], "crash": None, "covers": [], "solver_s": 0.0, "backends": {},
        "inlined": [], "summaries": [], "optable": [], "assumptions": [], "axioms": [], "files": {},
    }
    try:
        it = make_interp()
        symbols = {}
        apis = []

        def run(ctx):
            api = CaseAPI(ctx, it, case_id, symbols)
            apis.append(api)
            it.attr_hooks, it.call_hooks, it.contracts = [], [], {}
            it.depth = 0
            try:
                return cd.fn(api, *params)
            except (IndexError, AssertionError, KeyError, AttributeError, TypeError, ValueError) as e:
                # the value produced by the code does not have the structure the contract addresses (rank,
                # field, kind): an obligation in its own right -- decided by replaying on the real code
                tb = traceback.format_exc()
                ctx.prove(f"{case_id}:result_has_expected_structure", z3.BoolVal(False), {"exception": tb[-1500:]})
                return None

        try:
            results = explore(run, max_paths=cd.max_paths, time_budget=cd.timeout * 0.6)
        except PathLimit as e:
            out["undecided_paths"].append(str(e))
            results = []
        out["paths"] = len(results)
        covers = set()
        per_name = {}
        for api, res in zip(apis, results):
            if res.outcome == "infeasible":
                continue
            # extents introduced by slicing (definitional constants) are candidates for small-instance refutation too
            aux = symbols.setdefault("__aux_sizes__", {})
            for nm, v in res.ctx.ghost.get("defined_consts", []):
                if z3.is_int(v):
                    aux[str(v)] = (nm, v)
            covers |= api.covers
            out["assumptions"] = sorted(set(out["assumptions"]) | res.ctx.assumptions)
            out["axioms"] = sorted(set(out["axioms"]) | set(res.ctx.axioms))
            if res.outcome == "undecided":
                out["undecided_paths"].append(res.error)
            elif res.outcome == "raise":
                # the function raised on inputs satisfying the stated precondition and the harness
                # did not expect it: an implicit obligation
                from .symexec import Obligation
                res.obligations.append(Obligation(f"{case_id}:no_unexpected_exception", z3.BoolVal(False), res.pc,
                                                  {"raised": res.value.describe()}))
            for ob in res.obligations:
                per_name.setdefault(ob.name, []).append(ob)
        for m in cd.must_cover:
            if m not in covers:
                out["undecided_paths"].append(f"vacuity: cover point {m!r} not reached on any path")
        out["covers"] = sorted(covers)
        for name, obs in per_name.items():
            st_all, model, info, secs, be = "unsat", None, None, 0.0, set()
            n_paths = 0
            smt_sample = None
            for ob in obs:
                n_paths += 1
                st = None
                if ob.info.get("_lean") is not None:
                    st, dt, detail = run_lean(*ob.info["_lean"])
                    md, backend = None, "lean"
                    ob.info["lean_output"] = detail
                if st is None and ob.info.get("_cas") is not None and ob.info.get("_cas_first"):
                    # large polynomial identities: the CAS normal form is much faster than the SMT solver's nonlinear core
                    from . import cas
                    lhs, rhs, asm = ob.info["_cas"]
                    tc = time.time()
                    ok, why = cas.prove_identity(lhs, rhs, asm)
                    if ok:
                        st, md, dt, backend = "unsat", None, time.time() - tc, "sympy"
                if st is None:
                    st, md, dt, backend = solve_vc(ob.pc, ob.formula, cd.solver_timeout, symbols)
                if st != "unsat" and ob.info.get("_cas") is not None and not ob.info.get("_cas_first"):
                    from . import cas
                    lhs, rhs, asm = ob.info["_cas"]
                    tc = time.time()
                    ok, why = cas.prove_identity(lhs, rhs, asm)
                    dt += time.time() - tc
                    if ok:
                        st, md, backend = "unsat", None, "sympy"
                    else:
                        ob.info["cas_detail"] = why
                        if st == "unknown":
                            # the two sides differ numerically at several sampled valuations: a counter-model candidate (confirmed by the replay or dropped as spurious)
                            w = cas.refute_identity(lhs, rhs, asm)
                            if w is not None:
                                st, md, backend = "sat", {"cas_numeric_witness": w}, "sympy-numeric"
                if st == "unknown" and time.time() - t0 < cd.timeout * 0.7 and ob.info.get("_lean") is None:
                    # second attempt with a 4x budget (verdicts must not flip to undecided on a busy machine)
                    st, md, dt2, backend = solve_vc(ob.pc, ob.formula, cd.solver_timeout * 4, symbols)
                    dt += dt2
                if st == "unknown" and ob.info.get("_cas") is not None:
                    # an identity neither the CAS nor the SMT back ends could close: if the two sides differ numerically at several sampled valuations this is a
                    # counter-model candidate (confirmed by the replay on the real code, or dropped as spurious)
                    from . import cas
                    lhs, rhs, asm = ob.info["_cas"]
                    try:
                        w = cas.refute_identity(lhs, rhs, asm)
                    except Exception:
                        w = None
                    if w is not None:
                        st, md, backend = "sat", {"cas_numeric_witness": w}, "sympy-numeric"
                secs += dt
                be.add(backend)
                if smt_sample is None:
                    smt_sample = _vc_text(ob)
                if st == "sat":
                    st_all, model, info = "sat", md, ob.info
                    smt_sample = _vc_text(ob)
                    break
                if st == "unknown" and st_all == "unsat":
                    st_all = "unknown"
            out["obligations"][name] = {
                "status": st_all, "paths": n_paths, "model": model, "info": _jsonable({k: v for k, v in (info or {}).items() if not k.startswith("_")}), "solver_s": round(secs, 4),
                "backend": "+".join(sorted(be)), "vc": smt_sample,
            }
            out["solver_s"] += secs
            for b in be:
                out["backends"][b] = out["backends"].get(b, 0) + 1
        # replay counter-models against the real code
        for name, o in out["obligations"].items():
            if o["status"] == "sat":
                if cd.replay is not None:
                    try:
                        rr = cd.replay(o["model"], params, name.split(":", 1)[1], o["info"])
                    except Exception as e:
                        rr = classify_replay_exception(e)
                    o["replay"] = _jsonable(rr)
                else:
                    o["replay"] = {"violates": None, "detail": "no replay adapter for this contract"}
        out["inlined"] = sorted(it.inline_log)
        out["summaries"] = sorted(it.summary_log)
        out["optable"] = sorted(it.optable_log)
        out["files"] = dict(it.index.files_read)
    except Exception:
        out["crash"] = traceback.format_exc()
    out["wall_s"] = round(time.time() - t0, 3)
    return out


def classify_replay_exception(e):
    """an exception while replaying: raised inside the code under test (a frame in $VERIF_REPO/gpytorch) = the real
    code fails on this input (a violation with the traceback as witness); anything else = adapter defect (undecided)"""
    tb = traceback.extract_tb(e.__traceback__)
    root = os.path.join(REPO, "gpytorch")
    frames = [fr for fr in tb if fr.filename.startswith(root)]
    text = "".join(traceback.format_exception(type(e), e, e.__traceback__))[-1800:]
    if frames:
        fr = frames[-1]
        return {"violates": True, "detail": f"the real code raised {type(e).__name__}: {str(e)[:200]} at {os.path.relpath(fr.filename, REPO)}:{fr.lineno} ({fr.name})\n{text}"}
    return {"violates": None, "detail": "replay adapter crashed:\n" + text}


def _vc_text(ob):
    s = z3.Solver()
    s.add(*ob.pc)
    s.add(z3.Not(ob.formula))
    txt = s.to_smt2()
    return txt if len(txt) < 6000 else txt[:6000] + "\n; ... truncated"


def _jsonable(x):
    try:
        json.dumps(x)
        return x
    except Exception:
        if isinstance(x, dict):
            return {str(k): _jsonable(v) for k, v in x.items()}
        if isinstance(x, (list, tuple)):
            return [_jsonable(v) for v in x]
        return str(x)


def _child(cd, params, case_id, conn):
    try:
        r = run_case(cd, params, case_id)
    except BaseException:
        r = {"case": case_id, "crash": traceback.format_exc(), "obligations": {}, "prop": cd.prop}
    conn.send(r)
    conn.close()


def run_cases_parallel(jobs, workers=16, log=None):
    """jobs: list[(CaseDef, params, case_id)] -> list[result dict] (same order)"""
    ctxm = mp.get_context("fork")
    pending = list(enumerate(jobs))
    running = {}
    results = [None] * len(jobs)
    while pending or running:
        while pending and len(running) < workers:
            i, (cd, params, cid) = pending.pop(0)
            pr, pw = ctxm.Pipe(duplex=False)
            p = ctxm.Process(target=_child, args=(cd, params, cid, pw))
            p.start()
            pw.close()
            running[i] = (p, pr, time.time(), cd, cid)
        done = []
        for i, (p, pr, t0, cd, cid) in running.items():
            if pr.poll(0):
                try:
                    results[i] = pr.recv()
                except EOFError:
                    results[i] = {"case": cid, "prop": cd.prop, "crash": "child died without a result", "obligations": {}}
                p.join(5)
                done.append(i)
            elif not p.is_alive():
                if pr.poll(0.5):  # the result may have been sent between the two checks
                    try:
                        results[i] = pr.recv()
                    except EOFError:
                        results[i] = {"case": cid, "prop": cd.prop, "crash": "child died without a result", "obligations": {}}
                else:
                    results[i] = {"case": cid, "prop": cd.prop, "crash": f"child exited with code {p.exitcode} without a result", "obligations": {}}
                done.append(i)
            elif time.time() - t0 > cd.timeout:
                p.kill()
                p.join(5)
                results[i] = {"case": cid, "prop": cd.prop, "crash": None, "obligations": {}, "timeout": True,
                              "undecided_paths": [f"case killed after {cd.timeout}s (hard limit)"], "functions": list(cd.functions),
                              "clause": cd.clause}
                done.append(i)
        for i in done:
            running.pop(i)
            if log:
                log(results[i])
        if not done:
            time.sleep(0.02)
    return results


# ------------------------------------------------------------------------ known findings ----
def load_known():
    p = os.path.join(VERIF, "known_findings.json")
    if not os.path.exists(p):
        return {"findings": [], "fixed": []}
    return json.load(open(p))


def known_match(known, prop, key):
    for f in known.get("findings", []):
        if f["property"] == prop and re.fullmatch(f["match"], key):
            return f
    return None
