"""selftest.py -- engine-soundness guard: deliberate property-breaking patches on a scratch copy.

Usage: python -m engine.selftest Cxx [--keep]   (also run by the thorough tier)
For every mutants/Cxx/*.patch (header line `# expect: <regex on the failed obligation>`, optional
`# kind: refactor` for semantics-preserving edits that must stay green) the current /repo sources are
copied to a scratch directory outside /repo and /verif, the patch is applied, the quick check is run
against the copy (VERIF_REPO) and the outcome compared with the expectation.  The copy is removed.
"""
from __future__ import annotations

import glob
import os
import re
import shutil
import subprocess
import sys
import tempfile

VERIF = os.path.dirname(os.path.dirname(os.path.abspath(__file__)))
REPO = os.environ.get("VERIF_REPO", "/repo")


def run_one(prop, patch, extra_args=()):
    hdr = open(patch).read().splitlines()
    expect = next((l.split(":", 1)[1].strip() for l in hdr if l.startswith("# expect:")), None)
    kind = next((l.split(":", 1)[1].strip() for l in hdr if l.startswith("# kind:")), "mutant")
    scratch = tempfile.mkdtemp(prefix="verif_selftest_")
    try:
        shutil.copytree(os.path.join(REPO, "gpytorch"), os.path.join(scratch, "gpytorch"),
                        ignore=shutil.ignore_patterns("__pycache__"))
        p = subprocess.run(["patch", "-p1", "-s", "-d", scratch, "-i", os.path.abspath(patch)], capture_output=True, text=True)
        if p.returncode != 0:
            return False, f"patch does not apply: {p.stdout}{p.stderr}"
        env = dict(os.environ, VERIF_REPO=scratch)
        r = subprocess.run([os.path.join(VERIF, "check"), prop, "--tier", "quick", "--no-evidence", *extra_args],
                           capture_output=True, text=True, env=env, cwd=VERIF)
        out = r.stdout + r.stderr
        if kind == "refactor":
            ok = r.returncode == 0 and "VIOLATION" not in out
            return ok, "stays green" if ok else f"refactoring raised an alarm (exit {r.returncode}):\n{out[-1500:]}"
        viol = [l for l in out.splitlines() if l.startswith("VIOLATION") or l.strip().startswith("failed obligation")]
        if r.returncode != 1 or not viol:
            return False, f"mutant NOT detected (exit {r.returncode}):\n{out[-1500:]}"
        if expect and not any(re.search(expect, l) for l in viol):
            return False, f"detected, but not by the expected obligation /{expect}/:\n" + "\n".join(viol[:10])
        named = [l.strip() for l in viol if "failed obligation" in l][:2]
        return True, "detected: " + " | ".join(named)
    finally:
        shutil.rmtree(scratch, ignore_errors=True)


def main():
    prop = sys.argv[1]
    patches = sorted(glob.glob(os.path.join(VERIF, "mutants", prop, "*.patch")))
    if len(sys.argv) > 2 and not sys.argv[2].startswith("-") and sys.argv[2] != "--":
        patches = [p for p in patches if re.search(sys.argv[2], p)]
    bad = 0
    extra = tuple(sys.argv[sys.argv.index("--") + 1:]) if "--" in sys.argv else ()
    from concurrent.futures import ThreadPoolExecutor
    with ThreadPoolExecutor(4) as ex:
        for patch, (ok, msg) in zip(patches, ex.map(lambda p: run_one(prop, p, extra), patches)):
            print(("PASS " if ok else "FAIL ") + os.path.basename(patch) + " :: " + msg)
            bad += 0 if ok else 1
    print(f"selftest {prop}: {len(patches) - bad}/{len(patches)} as expected")
    return 1 if bad else 0


if __name__ == "__main__":
    sys.exit(main())
