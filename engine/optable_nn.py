"""optable_nn.py -- the torch.nn.Module attribute protocol (assumed semantics, DESIGN section 3):
parameters, buffers and sub-modules live in `_parameters` / `_buffers` / `_modules`;
`train(mode)` visits every child; registration helpers store into those dicts.
"""
from __future__ import annotations

import z3

from .values import (
    FALSE, NONE, TRUE, PyRaise, Undecided, V, VBool, VBuiltin, VClass, VDict, VExc, VExtClass, VFunc, VList,
    VNum, VObj, VOpaque, VStr, VTuple,
)
from .dom_elem import VTensor, as_tensor, pointwise, to_real

T = {}
NN = "torch.nn.Module"


def op(*names):
    def deco(f):
        for n in names:
            T[n] = f
        return f

    return deco


def is_module(v):
    return isinstance(v, VObj) and v.cls.is_subclass_of(NN)


def is_param(v):
    return isinstance(v, VTensor) and v.meta.get("is_parameter")


def _dicts(o):
    for k in ("_parameters", "_buffers", "_modules"):
        if k not in o.fields:
            o.fields[k] = VDict()
    return o.fields["_parameters"], o.fields["_buffers"], o.fields["_modules"]


@op(f"{NN}.__init__")
def _init(it, ctx, a, k):
    o = a[0]
    _dicts(o)
    o.fields.setdefault("training", TRUE)
    return NONE


@op(f"{NN}.__getattr__")
def _getattr(it, ctx, a, k):
    o, name = a[0], a[1].s
    if not isinstance(o, VObj):
        return None
    for d in _dicts(o):
        if name in d.d:
            ctx.note_read(("field", o.label, name))
            return d.d[name]
    return None


@op(f"{NN}.__setattr__")
def _setattr(it, ctx, a, k):
    o, name, v = a[0], a[1].s, a[2]
    params, bufs, mods = _dicts(o)
    if is_param(v):
        o.fields.pop(name, None)
        params.d[name] = v
    elif name in params.d:
        if v is not NONE and not isinstance(v, VTensor):
            raise PyRaise(VExc("TypeError", f"cannot assign non-parameter to parameter {name}"))
        params.d[name] = v
    elif is_module(v):
        o.fields.pop(name, None)
        mods.d[name] = v
    elif name in mods.d:
        mods.d[name] = v
    elif name in bufs.d:
        bufs.d[name] = v
    else:
        o.fields[name] = v
    ctx.note_write(("field", o.label, name))
    return NONE


@op(f"{NN}.__delattr__")
def _delattr(it, ctx, a, k):
    o, name = a[0], a[1].s
    for d in _dicts(o):
        if name in d.d:
            del d.d[name]
            return NONE
    o.fields.pop(name, None)
    return NONE


@op(f"{NN}.register_parameter")
def _register_parameter(it, ctx, a, k):
    o, name = a[0], a[1] if len(a) > 1 else k["name"]
    p = a[2] if len(a) > 2 else k.get("parameter", k.get("param", NONE))
    _dicts(o)[0].d[name.s] = p
    ctx.note_write(("field", o.label, name.s))
    return NONE


@op(f"{NN}.register_buffer")
def _register_buffer(it, ctx, a, k):
    o, name = a[0], a[1] if len(a) > 1 else k["name"]
    t = a[2] if len(a) > 2 else k.get("tensor", NONE)
    _dicts(o)[1].d[name.s] = t
    persistent = k.get("persistent", TRUE)
    if isinstance(persistent, VBool) and persistent.concrete() is False:
        o.fields.setdefault("_non_persistent_buffers_set", VList([])).items.append(name)
    ctx.note_write(("field", o.label, name.s))
    return NONE


@op(f"{NN}.add_module", f"{NN}.register_module")
def _add_module(it, ctx, a, k):
    o, name, m = a[0], a[1], a[2]
    _dicts(o)[2].d[name.s] = m
    ctx.note_write(("field", o.label, name.s))
    return NONE


def children(o):
    return [(n, m) for n, m in _dicts(o)[2].d.items() if m is not NONE]


@op(f"{NN}.named_children")
def _named_children(it, ctx, a, k):
    return VList([VTuple([VStr(n), m]) for n, m in children(a[0])])


@op(f"{NN}.children")
def _children(it, ctx, a, k):
    return VList([m for _, m in children(a[0])])


def named_modules(o, prefix="", memo=None):
    memo = memo if memo is not None else set()
    if id(o) in memo:
        return []
    memo.add(id(o))
    out = [(prefix, o)]
    if isinstance(o, VObj):
        for n, m in children(o):
            out += named_modules(m, prefix + ("." if prefix else "") + n, memo)
    return out


@op(f"{NN}.named_modules")
def _named_modules(it, ctx, a, k):
    prefix = k.get("prefix", a[2] if len(a) > 2 else VStr(""))
    return VList([VTuple([VStr(n), m]) for n, m in named_modules(a[0], prefix.s)])


@op(f"{NN}.modules")
def _modules(it, ctx, a, k):
    return VList([m for _, m in named_modules(a[0])])


@op(f"{NN}.named_parameters")
def _named_parameters(it, ctx, a, k):
    o = a[0]
    prefix = k.get("prefix", a[1] if len(a) > 1 else VStr("")).s
    recurse = k.get("recurse", a[2] if len(a) > 2 else TRUE)
    recurse = recurse.concrete() is not False
    out = []
    seen = set()
    mods = named_modules(o, prefix) if recurse else [(prefix, o)]
    for mp, m in mods:
        if not isinstance(m, VObj):
            continue
        for n, p in _dicts(m)[0].d.items():
            if p is NONE or id(p) in seen:
                continue
            seen.add(id(p))
            out.append(VTuple([VStr(mp + ("." if mp else "") + n), p]))
    return VList(out)


@op(f"{NN}.parameters")
def _parameters(it, ctx, a, k):
    return VList([x.items[1] for x in _named_parameters(it, ctx, a, k).items])


@op(f"{NN}.named_buffers")
def _named_buffers(it, ctx, a, k):
    out = []
    for mp, m in named_modules(a[0]):
        if isinstance(m, VObj):
            for n, p in _dicts(m)[1].d.items():
                if p is not NONE:
                    out.append(VTuple([VStr(mp + ("." if mp else "") + n), p]))
    return VList(out)


@op(f"{NN}.buffers")
def _buffers(it, ctx, a, k):
    return VList([x.items[1] for x in _named_buffers(it, ctx, a, k).items])


@op(f"{NN}.train")
def _train(it, ctx, a, k):
    o = a[0]
    mode = a[1] if len(a) > 1 else k.get("mode", TRUE)
    o.fields["training"] = mode
    ctx.note_write(("field", o.label, "training"))
    for n, m in children(o):
        it.call(ctx, m.py_getattr(it, ctx, "train"), [mode], {})
    return o


@op(f"{NN}.eval")
def _eval(it, ctx, a, k):
    o = a[0]
    return it.call(ctx, o.py_getattr(it, ctx, "train"), [FALSE], {})


@op(f"{NN}.apply")
def _apply(it, ctx, a, k):
    o, fn = a[0], a[1]
    for n, m in children(o):
        it.call(ctx, m.py_getattr(it, ctx, "apply"), [fn], {})
    it.call(ctx, fn, [o], {})
    return o


@op(f"{NN}._apply")
def _apply_(it, ctx, a, k):
    return a[0]


@op(f"{NN}.to", f"{NN}.double", f"{NN}.float", f"{NN}.cpu", f"{NN}.cuda", f"{NN}.requires_grad_", f"{NN}.zero_grad")
def _to(it, ctx, a, k):
    return a[0]


@op(f"{NN}._get_name")
def _get_name(it, ctx, a, k):
    return VStr(a[0].cls.name)


@op(f"{NN}._register_load_state_dict_pre_hook", f"{NN}.register_forward_pre_hook", f"{NN}._register_state_dict_hook",
    f"{NN}.register_load_state_dict_post_hook")
def _noop_hook(it, ctx, a, k):
    o = a[0]
    o.fields.setdefault("_hooks_registered", VList([])).items.append(a[1] if len(a) > 1 else NONE)
    return VOpaque("hook-handle")


@op(f"{NN}.__call__")
def _call(it, ctx, a, k):
    o = a[0]
    return it.call(ctx, o.py_getattr(it, ctx, "forward"), list(a[1:]), k)


@op(f"{NN}.extra_repr", f"{NN}.__repr__")
def _repr(it, ctx, a, k):
    return VStr("<module repr>")


@op("torch.nn.Parameter", "torch.nn.parameter.Parameter")
def _Parameter(it, ctx, a, k):
    t = a[0] if a else k.get("data")
    r = t.copy()
    r.meta["is_parameter"] = True
    rg = k.get("requires_grad", a[1] if len(a) > 1 else TRUE)
    r.requires_grad = rg.concrete() is not False if isinstance(rg, VBool) else True
    return r


class VSoftplus(V):
    kind = "nn.Softplus"

    def py_call(self, it, ctx, args, kwargs):
        from . import dom_real
        return pointwise(ctx, [as_tensor(args[0])], lambda x: dom_real.apply(ctx, "softplus", to_real(x)), sort="real")

    def py_eq(self, it, ctx, other):
        return isinstance(other, VSoftplus)

    def describe(self):
        return "Softplus()"


@op("torch.nn.Softplus")
def _Softplus(it, ctx, a, k):
    if a or k:
        raise Undecided("Softplus with non-default beta/threshold")
    return VSoftplus()


T["torch.nn.functional.softplus"] = lambda it, ctx, a, k: VSoftplus().py_call(it, ctx, a, k)


@op("torch.nn.ModuleList")
def _ModuleList(it, ctx, a, k):
    """an ordered container of sub-modules: iteration / len / indexing as a list"""
    return VList(it.iterate(ctx, a[0]) if a else [])

T["torch.nn.Module"] = VExtClass("torch.nn.Module")
