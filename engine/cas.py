"""cas.py -- sympy as a back end for pure real-analytic identities (exp / log / sqrt / rational).

Used only for obligations that are equalities between real terms built from arithmetic and the
uninterpreted exp/log/sqrt symbols of dom_real, when the SMT solver (which sees those symbols
only through ground axiom instances) cannot close them.  `simplify(lhs - rhs) == 0` under the
stated sign assumptions counts as discharged by back end "sympy" and is additionally
cross-checked numerically at random points with mpmath (50 digits).  Trusted: sympy's
simplifier.  A failed CAS attempt never produces a violation.
"""
from __future__ import annotations

import random

import z3


def to_sympy(t, syms, assumptions):
    import sympy as sp

    def rec(x):
        if z3.is_int_value(x):
            return sp.Integer(x.as_long())
        if z3.is_rational_value(x):
            f = x.as_fraction()
            return sp.Rational(f.numerator, f.denominator)
        if z3.is_const(x) and x.decl().kind() == z3.Z3_OP_UNINTERPRETED:
            n = x.decl().name()
            if n not in syms:
                kw = dict(real=True)
                kw.update(assumptions.get(n, {}))
                syms[n] = sp.Symbol(n.replace("!", "_"), **kw)
            return syms[n]
        k = x.decl().kind()
        ch = [rec(c) for c in x.children()]
        if k == z3.Z3_OP_ADD:
            return sp.Add(*ch)
        if k == z3.Z3_OP_MUL:
            return sp.Mul(*ch)
        if k == z3.Z3_OP_SUB:
            r = ch[0]
            for c in ch[1:]:
                r = r - c
            return r
        if k == z3.Z3_OP_UMINUS:
            return -ch[0]
        if k in (z3.Z3_OP_DIV,):
            return ch[0] / ch[1]
        if k == z3.Z3_OP_POWER:
            return ch[0] ** ch[1]
        if k == z3.Z3_OP_TO_REAL:
            return ch[0]
        if k == z3.Z3_OP_UNINTERPRETED:
            n = x.decl().name()
            if n == "recip":
                return 1 / ch[0]
            table = {"exp": sp.exp, "log": sp.log, "sqrt": sp.sqrt, "sin": sp.sin, "cos": sp.cos, "tanh": sp.tanh,
                     "erf": sp.erf, "pow": lambda a, b: a ** b}
            if n in table:
                return table[n](*ch)
            if ch:
                return sp.Function(n.replace("!", "_"))(*ch)
        raise ValueError(f"term outside the CAS fragment: {x.decl().name()}")

    return rec(t)


def prove_identity(lhs, rhs, assumptions=None, seed=0):
    """returns (ok: bool, detail: str)"""
    import sympy as sp
    import mpmath

    syms = {}
    try:
        d = to_sympy(z3.simplify(lhs), syms, assumptions or {}) - to_sympy(z3.simplify(rhs), syms, assumptions or {})
    except (ValueError, z3.Z3Exception) as e:
        return False, f"outside the CAS fragment: {e}"
    import signal

    class _TO(Exception):
        pass

    def _alarm(*a):
        raise _TO()

    old_h = signal.signal(signal.SIGALRM, _alarm)
    signal.alarm(30)
    try:
        s = sp.simplify(d)
        if s != 0:
            s = sp.simplify(sp.expand_log(sp.logcombine(sp.expand(d), force=True), force=True))
    except _TO:
        return False, "sympy time-out (30 s)"
    except Exception as e:  # pragma: no cover
        return False, f"sympy failed: {e}"
    finally:
        signal.alarm(0)
        signal.signal(signal.SIGALRM, old_h)
    if s != 0:
        return False, f"sympy residue: {str(s)[:200]}"
    # numeric cross-check
    rng = random.Random(seed)
    mpmath.mp.dps = 50
    # tensor entries such as x1(i, 0) are applications of uninterpreted functions: independent atoms for the numeric cross-check
    from sympy.core.function import AppliedUndef
    apps = sorted(d.atoms(AppliedUndef), key=str)
    rep = {a_: sp.Symbol(f"atom{k_}", real=True) for k_, a_ in enumerate(apps)}
    d = d.xreplace(rep)
    syms = {**{str(a_): v_ for a_, v_ in rep.items()}, **{n_: sy_ for n_, sy_ in syms.items() if sy_ in d.free_symbols}}
    for sy_ in d.free_symbols:
        if sy_ not in syms.values():
            syms[str(sy_)] = sy_
    f = sp.lambdify(list(syms.values()), d, "mpmath")
    evaluated = 0
    for _ in range(20):
        vals = []
        for n, sy in syms.items():
            a = (assumptions or {}).get(n, {})
            lo, hi = a.get("range", (-3, 3))
            if a.get("positive") and "range" not in a:
                lo, hi = 0.05, 4
            vals.append(mpmath.mpf(rng.uniform(lo, hi)))
        try:
            v = f(*vals)
        except Exception:
            continue
        evaluated += 1
        if abs(v) > mpmath.mpf(10) ** -30:
            return False, f"numeric cross-check failed at {vals}: {v}"
    return True, f"sympy.simplify(lhs - rhs) == 0, numeric cross-check passed at {evaluated} sampled valuations"


def refute_identity(lhs, rhs, assumptions=None, seed=0, tries=12):
    """numeric witness that lhs != rhs: a valuation (all atoms positive, in (0.3, 2)) at which the two sides differ by more than 1e-6 relative; None if none is found.
    Only a hint -- the caller replays on the real code before anything is reported."""
    import sympy as sp
    import mpmath

    syms = {}
    try:
        d = to_sympy(z3.simplify(lhs), syms, assumptions or {}) - to_sympy(z3.simplify(rhs), syms, assumptions or {})
        r = to_sympy(z3.simplify(rhs), dict(syms), assumptions or {})
    except (ValueError, z3.Z3Exception):
        return None
    rng = random.Random(seed + 17)
    mpmath.mp.dps = 30
    # applications of uninterpreted functions (tensor entries such as x1(i, 0)) are independent atoms: one fresh symbol each
    from sympy.core.function import AppliedUndef
    apps = sorted(set(d.atoms(AppliedUndef)) | set(r.atoms(AppliedUndef)), key=str)
    rep = {a_: sp.Symbol(f"atom{k_}", real=True) for k_, a_ in enumerate(apps)}
    d, r = d.xreplace(rep), r.xreplace(rep)
    names = {str(a_): v_ for a_, v_ in rep.items()}
    free = sorted(set(d.free_symbols) | set(r.free_symbols), key=str)
    try:
        f = sp.lambdify(free, [d, r], "mpmath")
    except Exception:
        return None
    back = {v_: k_ for k_, v_ in names.items()}
    syms = {back.get(sy, str(sy)): sy for sy in free}
    hits = 0
    first = None
    for _ in range(tries):
        vals = [mpmath.mpf(rng.uniform(0.3, 2.0)) for _ in syms]
        try:
            dv, rv = f(*vals)
        except Exception:
            continue
        if abs(dv) > mpmath.mpf("1e-6") * (1 + abs(rv)):
            hits += 1
            if first is None:
                first = {str(n): float(v) for n, v in zip(syms.keys(), vals)}
                first["__difference__"] = float(dv)
    return first if hits >= max(2, tries // 3) else None
