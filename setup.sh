#!/bin/bash
# Offline, idempotent: overlay venv (python 3.12 + z3/cvc5/icontract/... from the wheelhouse,
# torch/linear_operator seen through a .pth into /venv). gpytorch itself is always imported
# from $VERIF_REPO (default /repo) by PYTHONPATH, never from an installed copy.
set -e
cd "$(dirname "$0")"
export PIP_NO_INDEX=1
V=.venv
if [ ! -x $V/bin/python ] || ! $V/bin/python -c "import z3, cvc5, icontract, jsonschema, sympy, mpmath" 2>/dev/null; then
  rm -rf $V
  /venv/bin/python -m venv $V
  $V/bin/python -m pip install -q --no-index --find-links /opt/veriftools/wheels \
      z3-solver cvc5 icontract deal crosshair-tool sympy mpmath jsonschema hypothesis >/dev/null
  SP=$($V/bin/python -c "import site; print(site.getsitepackages()[0])")
  echo "import site; site.addsitedir('/venv/lib/python3.12/site-packages')" > $SP/zz_venv_overlay.pth
fi
$V/bin/python -c "import z3, torch, linear_operator; print('setup ok: z3', z3.get_version_string(), 'torch', torch.__version__)"
