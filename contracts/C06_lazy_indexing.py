"""C06 -- diag, transpose, lazy evaluation and indexing of a kernel agree (the structural core; proof tier).

Functions under contract (real AST): lazy.lazy_evaluated_kernel_tensor.LazyEvaluatedKernelTensor.{_getitem, _size,
_transpose_nonbatch, _unsqueeze_batch, repeat}, kernels.kernel.Kernel.__call__, kernels.kernel.{AdditiveKernel, ProductKernel}.__getitem__.

Abstraction: a LazyEvaluatedKernelTensor (x1, x2, kernel) with t_r x t_c outputs per input DENOTES the matrix
M[b, r, c] = kappa(x1[b, r div t_r], x2[b, c div t_c])[r mod t_r, c mod t_c]  (kappa: the kernel's contract, C05).  Hence a new lazy tensor
(x1', x2', kernel) denotes rows R of M iff  rows(x1') * t_r == len(R), R is a unit-step range starting at a multiple of t_r, and
x1'[p] == x1[R.start / t_r + p]; anything else has to take the dense fall-back (evaluate_kernel()._getitem with the same indices).
The method decorators @cached / @recall_grad_state are dropped by the extraction (memoisation and grad mode do not change values; caches
are the subject of C03).
"""
from __future__ import annotations

import z3

from engine import dom_elem as E
from engine.dom_elem import Dim, VTensor, ivar, sym_tensor
from engine.runner import case
from engine.values import FALSE, NONE, TRUE, PyRaise, VBool, VBuiltin, VDict, VList, VNum, VObj, VSlice, VStr, VTuple
from contracts.stubs import Stub

LZ = "gpytorch.lazy.lazy_evaluated_kernel_tensor.LazyEvaluatedKernelTensor"
KM = "gpytorch.kernels.kernel"


def size_tuple(xs):
    return VTuple([VNum(x) if not isinstance(x, VNum) else x for x in xs], is_size=True)


def kernel_stub(tr, tc, batch=()):
    npi = VNum(tr) if tr == tc else VTuple([VNum(tr), VNum(tc)])
    return Stub("kernel", attrs={"batch_shape": size_tuple(list(batch)), "active_dims": NONE}, methods={"num_outputs_per_input": lambda a, b: npi},
                isa=("Kernel",))


def lekt(c, x1, x2, kernel, shape, last_dim_is_batch=False, dense=None):
    it = c.it
    ci = it.index.get_class(LZ)
    o = VObj(ci, label="LazyEvaluatedKernelTensor")
    o.fields.update({"x1": x1, "x2": x2, "kernel": kernel, "last_dim_is_batch": VBool(last_dim_is_batch), "params": VDict(), "_is_grad_enabled": TRUE})
    made = []

    def attr_hook(it_, ctx_, obj, name):
        if obj is o and name == "shape" and shape is not None:
            return size_tuple(shape)
        return None

    def call_hook(it_, ctx_, fi, args, kwargs):
        if isinstance(fi, tuple):
            return NotImplemented
        if fi.qualname == LZ + ".__init__":
            new = args[0]
            names = ["x1", "x2", "kernel", "last_dim_is_batch"]
            vals = dict(zip(names, args[1:]))
            extra = {k_: v for k_, v in kwargs.items() if k_ not in names}
            vals.update({k_: v for k_, v in kwargs.items() if k_ in names})
            vals.setdefault("last_dim_is_batch", FALSE)
            new.fields.update(vals)
            new.fields["params"] = VDict(extra)
            made.append(new)
            return NONE
        if fi.qualname == LZ + ".evaluate_kernel" and args and args[0] is o and dense is not None:
            return dense
        return NotImplemented

    it.attr_hooks.append(attr_hook)
    it.call_hooks.append(call_hook)
    return o, made


def range_of(c, sl, n):
    """(start, number of elements, step) of range(*slice.indices(n))"""
    tup = sl._indices(c.it, c.ctx, [VNum(n)], {})
    st, en, step = [x.t for x in tup.items]
    cnt = z3.Int(f"count_{len(c.ctx.ghost.setdefault('range_counts', []))}")
    c.ctx.ghost["range_counts"].append(cnt)
    # cnt = ceil((en - st) / step) for en > st, else 0   (step >= 1)
    c.ctx.assume(z3.If(en > st, z3.And((cnt - 1) * step < en - st, en - st <= cnt * step), cnt == 0))
    return st, cnt, step


@case("C06", clause="lazy_getitem", expand=lambda ix: [(tr, tc) for tr, tc in ((1, 1), (2, 2), (3, 3), (2, 1))], replay=lambda *a: replay_lazy(*a),
      functions=[f"{LZ}._getitem"], timeout=900)
def lazy_getitem(c, tr, tc):
    """K[..., rows, cols] for arbitrary slices (None / negative / zero / out-of-range bounds, any step) on an unbatched lazy tensor"""
    it, ctx = c.it, c.ctx
    n1, n2, d = c.size("n1"), c.size("n2"), c.size("d")
    x1, x2 = sym_tensor("x1", [n1.t, d.t]), sym_tensor("x2", [n2.t, d.t])
    kern = kernel_stub(tr, tc)
    fallback = []
    dense = Stub("evaluated_kernel", methods={"_getitem": lambda *a: (fallback.append(list(a)), VStr("dense[rows, cols]"))[1]})
    N, M = n1.t * tr, n2.t * tc
    o, made = lekt(c, x1, x2, kern, [N, M], dense=dense)
    rs = VSlice(c.opt_int("r_start"), c.opt_int("r_stop"), c.opt_int("r_step"))
    cs = VSlice(c.opt_int("c_start"), c.opt_int("c_stop"), c.opt_int("c_step"))
    for v in ("r_step", "c_step"):  # precondition: a step is None or positive (torch rejects zero / negative steps for the dense matrix too)
        c.assume(c.symbols[v + "$i"] >= 1)
    res = it.call(ctx, c.getattr(o, "_getitem"), [rs, cs], {})
    if fallback:
        c.cover("dense_fallback")
        c.prove("getitem.fallback_passes_the_same_indices", z3.BoolVal(len(fallback) == 1 and fallback[0][0] is rs and fallback[0][1] is cs and len(fallback[0]) == 2))
        return
    c.cover("lazy_fast_path")
    ok = len(made) == 1 and res is made[0]
    c.prove("getitem.returns_one_new_lazy_tensor", z3.BoolVal(ok))
    if not ok:
        return
    new = made[0]
    c.prove("getitem.same_kernel_and_flags", z3.BoolVal(new.fields["kernel"] is kern and isinstance(new.fields["last_dim_is_batch"], VBool)
                                                        and z3.is_false(new.fields["last_dim_is_batch"].t) and len(new.fields["params"].d) == 0))
    for tag, sl, x, xn, n, t in (("rows", rs, x1, new.fields["x1"], n1.t, tr), ("cols", cs, x2, new.fields["x2"], n2.t, tc)):
        st, ln, step = range_of(c, sl, n * t)
        if t > 1:
            c.prove(f"getitem.{tag}.unit_step", step == 1)  # a stepped selection of output rows is not a set of whole points
        c.prove(f"getitem.{tag}.rank_kept", z3.BoolVal(len(xn.dims) == 2))
        if len(xn.dims) != 2:
            continue
        c.prove(f"getitem.{tag}.count", z3.And(xn.dims[0].size * t == ln, xn.dims[1].size == d.t))
        c.prove(f"getitem.{tag}.aligned", z3.Implies(ln > 0, st % t == 0))
        p, k = ivar("p"), ivar("k")
        c.assume(z3.And(p >= 0, p < xn.dims[0].size, k >= 0, k < d.t))
        c.prove(f"getitem.{tag}.points", z3.Implies(ln > 0, xn.at([p, k]) == x.at([st / t + p * (step if t == 1 else 1), k])))


@case("C06", clause="lazy_getitem", name="lazy_getitem_batch", expand=lambda ix: [(t, kb) for t in (1, 2) for kb in (False, True)], replay=lambda *a: replay_lazy(*a),
      functions=[f"{LZ}._getitem"], timeout=900)
def lazy_getitem_batch(c, t, kernel_batched):
    """an int batch index together with full row / column slices: inputs are indexed at that batch element, and the kernel is indexed with
    the same batch index (callee contract of Kernel.__getitem__: the kernel of that batch element)"""
    it, ctx = c.it, c.ctx
    B, n1, n2, d = c.size("B"), c.size("n1"), c.size("n2"), c.size("d")
    x1, x2 = sym_tensor("x1", [B.t, n1.t, d.t]), sym_tensor("x2", [B.t, n2.t, d.t])
    kern = kernel_stub(t, t, batch=[B.t] if kernel_batched else [])
    sub = Stub("kernel[b]", isa=("Kernel",))
    asked = []
    kern.methods["__getitem__"] = lambda idx: (asked.append(idx), sub)[1]
    kern.methods["expand_batch"] = lambda *a: kern
    o, made = lekt(c, x1, x2, kern, [B.t, n1.t * t, n2.t * t])
    b = c.int("b")
    c.assume(z3.And(b.t >= 0, b.t < B.t))
    full = VSlice(NONE, NONE, NONE)
    res = it.call(ctx, c.getattr(o, "_getitem"), [full, VSlice(NONE, NONE, NONE), b], {})
    ok = len(made) == 1 and res is made[0]
    c.prove("getitem_batch.returns_one_new_lazy_tensor", z3.BoolVal(ok))
    if not ok:
        return
    new = made[0]
    c.prove("getitem_batch.kernel_indexed_with_the_batch_index", z3.BoolVal(new.fields["kernel"] is sub and len(asked) == 1 and isinstance(asked[0], (VTuple, VList))
                                                                            and len(asked[0].items) == 1 and asked[0].items[0] is b))
    i, k = ivar("i"), ivar("k")
    for tag, x, xn, n in (("x1", x1, new.fields["x1"], n1.t), ("x2", x2, new.fields["x2"], n2.t)):
        c.prove(f"getitem_batch.{tag}.shape", z3.And(z3.BoolVal(len(xn.dims) == 2), xn.dims[0].size == n, xn.dims[-1].size == d.t) if len(xn.dims) == 2 else z3.BoolVal(False))
        if len(xn.dims) == 2:
            c.assume(z3.And(i >= 0, k >= 0, k < d.t))
            c.prove(f"getitem_batch.{tag}.points", z3.Implies(i < n, xn.at([i, k]) == x.at([b.t, i, k])))


@case("C06", clause="lazy_size", expand=lambda ix: [(r1, r2, rk, t, ldb) for r1 in (0, 1) for r2 in (0, 1) for rk in (0, 1) for t in (1, 2, 21) for ldb in (False, True) if not (ldb and t > 1)],
      replay=lambda *a: replay_lazy(*a), functions=[f"{LZ}._size"])
def lazy_size(c, r1, r2, rk, t, ldb):
    """shape = broadcast(batch(x1), batch(x2), kernel.batch_shape) [+ (d,) if last_dim_is_batch] + (n1 * t_r, n2 * t_c)"""
    it, ctx = c.it, c.ctx
    B, n1, n2, d = c.size("B"), c.size("n1"), c.size("n2"), c.size("d")
    x1 = sym_tensor("x1", ([B.t] if r1 else []) + [n1.t, d.t])
    x2 = sym_tensor("x2", ([B.t] if r2 else []) + [n2.t, d.t])
    tr, tc = (2, 1) if t == 21 else (t, t)
    kern = kernel_stub(tr, tc, batch=[B.t] if rk else [])
    o, made = lekt(c, x1, x2, kern, None, last_dim_is_batch=ldb)
    c.ctx.classattrs[("gpytorch.settings.debug", "_state")] = FALSE
    res = it.call(ctx, c.getattr(o, "_size"), [], {})
    want = ([B.t] if (r1 or r2 or rk) else []) + ([d.t] if ldb else []) + [n1.t * tr, n2.t * tc]
    items = list(res.items)
    c.prove("size.rank", z3.BoolVal(len(items) == len(want)))
    if len(items) == len(want):
        c.prove("size.extents", z3.And(*[g.t == w for g, w in zip(items, want)]))


@case("C06", clause="lazy_structure", expand=lambda ix: [(op,) for op in ("transpose", "unsqueeze", "repeat")], replay=lambda *a: replay_lazy(*a),
      functions=[f"{LZ}._transpose_nonbatch", f"{LZ}._unsqueeze_batch", f"{LZ}.repeat"])
def lazy_structure(c, op):
    """transpose = the lazy tensor of (x2, x1); unsqueeze_batch(dim) unsqueezes both inputs; repeat(*batch, r, c) repeats the rows of x1 r
    times and of x2 c times -- all with the same kernel, flags and params"""
    it, ctx = c.it, c.ctx
    n1, n2, d = c.size("n1"), c.size("n2"), c.size("d")
    x1, x2 = sym_tensor("x1", [n1.t, d.t]), sym_tensor("x2", [n2.t, d.t])
    kern = kernel_stub(1, 1)
    o, made = lekt(c, x1, x2, kern, [n1.t, n2.t])
    i, k = ivar("i"), ivar("k")
    c.assume(z3.And(i >= 0, k >= 0, k < d.t))
    if op == "transpose":
        res = it.call(ctx, c.getattr(o, "_transpose_nonbatch"), [], {})
    elif op == "unsqueeze":
        res = it.call(ctx, c.getattr(o, "_unsqueeze_batch"), [VNum(0)], {})
    else:
        rr, rc = c.size("rr"), c.size("rc")
        res = it.call(ctx, c.getattr(o, "repeat"), [rr, rc], {})
    ok = len(made) == 1 and res is made[0]
    c.prove(f"{op}.returns_one_new_lazy_tensor", z3.BoolVal(ok))
    if not ok:
        return
    new = made[0]
    c.prove(f"{op}.same_kernel_and_flags", z3.BoolVal(new.fields["kernel"] is kern and z3.is_false(new.fields["last_dim_is_batch"].t) and len(new.fields["params"].d) == 0))
    a, b_ = new.fields["x1"], new.fields["x2"]
    if op == "transpose":
        c.prove("transpose.inputs_swapped", z3.BoolVal(a is x2 and b_ is x1))
    elif op == "unsqueeze":
        c.prove("unsqueeze.shapes", z3.And(z3.BoolVal(len(a.dims) == 3 and len(b_.dims) == 3), a.dims[0].size == 1, b_.dims[0].size == 1) if len(a.dims) == 3 and len(b_.dims) == 3 else z3.BoolVal(False))
        if len(a.dims) == 3 and len(b_.dims) == 3:
            c.prove("unsqueeze.points", z3.And(z3.Implies(i < n1.t, a.at([z3.IntVal(0), i, k]) == x1.at([i, k])), z3.Implies(i < n2.t, b_.at([z3.IntVal(0), i, k]) == x2.at([i, k]))))
    else:
        c.prove("repeat.shapes", z3.And(z3.BoolVal(len(a.dims) == 2 and len(b_.dims) == 2), a.dims[0].size == n1.t * rr.t, b_.dims[0].size == n2.t * rc.t,
                                        a.dims[-1].size == d.t, b_.dims[-1].size == d.t) if len(a.dims) == 2 and len(b_.dims) == 2 else z3.BoolVal(False))
        if len(a.dims) == 2 and len(b_.dims) == 2:
            q = ivar("q")
            c.assume(z3.And(q >= 0))
            c.prove("repeat.rows_of_x1", z3.Implies(z3.And(q < rr.t, i < n1.t), a.at_dims([q * n1.t + i, k]) == x1.at([i, k])))
            c.prove("repeat.rows_of_x2", z3.Implies(z3.And(q < rc.t, i < n2.t), b_.at_dims([q * n2.t + i, k]) == x2.at([i, k])))


# ------------------------------------------------------------------ Kernel.__call__ ----------------------------------
def kernel_under_call(c, active, ard=None):
    it = c.it
    ci = it.index.get_class(f"{KM}.Kernel")
    o = VObj(ci, label="Kernel")
    m = c.size("m")
    ad = sym_tensor("active_dims", [m.t], sort="int") if active else NONE
    o.fields.update({"_parameters": VDict(), "_buffers": VDict({"active_dims": ad}), "_modules": VDict(), "_priors": VDict(), "_constraints": VDict(),
                     "_added_loss_terms": VDict(), "training": TRUE, "_batch_shape": size_tuple([]), "ard_num_dims": NONE, "eps": VNum(1e-6), "distance_module": NONE})
    fwd = []
    K = z3.Function("forward_result", z3.IntSort(), z3.IntSort(), z3.RealSort())

    def call_hook(it_, ctx_, fi, args, kwargs):
        if isinstance(fi, tuple) or not args or args[0] is not o:
            return NotImplemented
        if fi.name == "forward":
            fwd.append((args[1], args[2], dict(kwargs)))
            a, b_ = args[1], args[2]
            dg = kwargs.get("diag", FALSE)
            if isinstance(dg, VBool) and z3.is_true(dg.t):
                return VTensor([a.dims[-2]], lambda idx: K(idx[0], idx[0]), "real")
            return VTensor([a.dims[-2], b_.dims[-2]], lambda idx: K(idx[0], idx[1]), "real")
        return NotImplemented

    it.call_hooks.append(call_hook)
    return o, ad, m.t, fwd, K


@case("C06", clause="kernel_call", expand=lambda ix: [(active, x2given, mode, one_d) for active in (False, True) for x2given in (False, True) for mode in ("lazy", "eager", "diag")
                                                  for one_d in (False, True) if not (one_d and active)],
      replay=lambda *a: replay_call(*a), functions=[f"{KM}.Kernel.__call__"])
def kernel_call(c, active, x2given, mode, one_d):
    """the inputs handed on (to forward, or to the lazy tensor) are exactly the active columns of x1 and x2 (x2 = x1 if omitted; a 1-d input
    is a column), nothing else; diag=True returns forward's diagonal; lazy and eager wrap the same (inputs, kernel)"""
    it, ctx = c.it, c.ctx
    n1, n2, d = c.size("n1"), c.size("n2"), c.size("d")
    o, ad, m, fwd, K = kernel_under_call(c, active)
    if one_d:
        x1, x2 = sym_tensor("x1", [n1.t]), sym_tensor("x2", [n2.t])
    else:
        x1, x2 = sym_tensor("x1", [n1.t, d.t]), sym_tensor("x2", [n2.t, d.t])
    ctx.classattrs[("gpytorch.settings.lazily_evaluate_kernels", "_state")] = VBool(mode == "lazy")
    ctx.classattrs[("gpytorch.settings.debug", "_state")] = FALSE
    made = []

    def call_hook(it_, ctx_, fi, args, kwargs):
        if isinstance(fi, tuple):
            return NotImplemented
        if fi.qualname == LZ + ".__init__":
            new = args[0]
            new.fields.update({"x1": args[1], "x2": args[2], "kernel": kwargs.get("kernel"), "last_dim_is_batch": kwargs.get("last_dim_is_batch", FALSE),
                               "params": VDict({k_: v for k_, v in kwargs.items() if k_ not in ("kernel", "last_dim_is_batch")})})
            made.append(new)
            return NONE
        return NotImplemented

    it.call_hooks.append(call_hook)
    it.optable["linear_operator.to_linear_operator"] = lambda it_, ctx_, a, k: a[0]
    args = [x1] + ([x2] if x2given else [])
    res = it.call(ctx, c.getattr(o, "__call__"), args, {"diag": VBool(mode == "diag")})
    if mode == "lazy":
        ok = len(made) == 1 and res is made[0] and not fwd
        c.prove("call.lazy_wraps_without_evaluating", z3.BoolVal(ok))
        if not ok:
            return
        a, b_ = made[0].fields["x1"], made[0].fields["x2"]
        c.prove("call.lazy_keeps_the_kernel", z3.BoolVal(made[0].fields["kernel"] is o))
    else:
        ok = len(fwd) == 1 and not made
        c.prove("call.one_forward_call", z3.BoolVal(ok))
        if not ok:
            return
        a, b_, kw = fwd[0]
        c.prove("call.diag_flag_passed", z3.BoolVal((mode == "diag") == (isinstance(kw.get("diag"), VBool) and z3.is_true(kw["diag"].t))))
        i, j = ivar("i"), ivar("j")
        n2e = n2.t if x2given else n1.t
        c.assume(z3.And(i >= 0, i < n1.t, j >= 0, j < n2e))
        if mode == "diag":
            c.prove("call.diag_is_forwards_diagonal", z3.And(z3.BoolVal(len(res.dims) == 1), res.at([i]) == K(i, i)) if len(res.dims) == 1 else z3.BoolVal(False))
        else:
            c.prove("call.eager_is_forwards_matrix", z3.And(z3.BoolVal(len(res.dims) == 2), res.at([i, j]) == K(i, j)) if len(res.dims) == 2 else z3.BoolVal(False))
    if not x2given:
        c.prove("call.x2_defaults_to_x1", z3.BoolVal(a is b_))
    i, k = ivar("i"), ivar("k")
    width = m if active else (z3.IntVal(1) if one_d else d.t)
    for tag, src, got, n in (("x1", x1, a, n1.t), ("x2", x2 if x2given else x1, b_, n2.t if x2given else n1.t)):
        good = len(got.dims) == 2
        c.prove(f"call.{tag}.rank", z3.BoolVal(good))
        if not good:
            continue
        c.prove(f"call.{tag}.shape", z3.And(got.dims[0].size == n, got.dims[1].size == width))
        c.assume(z3.And(i >= 0, k >= 0))
        if active:
            col = ad.at([k])
            c.assume(z3.Implies(z3.And(k < m), z3.And(col >= 0, col < d.t)))
            c.prove(f"call.{tag}.active_columns", z3.Implies(z3.And(i < n, k < m), got.at([i, k]) == src.at([i, col])))
        elif one_d:
            c.prove(f"call.{tag}.column_vector", z3.Implies(i < n, got.at([i, z3.IntVal(0)]) == src.at([i])))
        else:
            c.prove(f"call.{tag}.unchanged", z3.Implies(z3.And(i < n, k < d.t), got.at([i, k]) == src.at([i, k])))


def replay_lazy(model, params, clause, info):
    from bounded import C06_enumeration
    r = C06_enumeration.run("quick", 0, only="index")
    import json
    import os
    kf = json.load(open(os.path.join(os.path.dirname(os.path.dirname(os.path.abspath(__file__))), "known_findings.json")))
    import re
    pats = [re.compile(f["match"]) for f in kf["findings"] if f["property"] == "C06"]
    bad = [v for v in r["violations"] if not any(p.fullmatch("bounded:" + v["key"]) for p in pats)]
    return {"violates": bool(bad), "detail": "; ".join(f"{v['key']}: {v['detail']}" for v in bad[:5])[:700] or "lazy indexing agrees with dense indexing on the enumerated expressions (real code)",
            "entry": {"module": "contracts.C06_lazy_indexing", "function": "replay_lazy", "args": [model, list(params), clause, info]}}


def _active_dims_direct():
    """ARD kernels with active_dims (subsets, reordered subsets, full-length permutations and repeats) against the same kernel WITHOUT active_dims applied to the
    explicitly selected columns x[..., dims]: full matrix, diagonal, lazy and eager evaluation"""
    import torch
    import gpytorch
    torch.manual_seed(3)
    bad = []
    X1, X2 = torch.randn(5, 3, dtype=torch.double), torch.randn(4, 3, dtype=torch.double)
    for dims in ([0], [2, 0], [1, 2], [0, 1, 2], [1, 0, 2], [2, 0, 1], [2, 2, 1]):
        for name, mk in (("rbf_ard", lambda nd, ad: gpytorch.kernels.RBFKernel(ard_num_dims=nd, active_dims=ad)), ("matern_ard", lambda nd, ad: gpytorch.kernels.MaternKernel(nu=1.5, ard_num_dims=nd, active_dims=ad)),
                         ("linear_ard", lambda nd, ad: gpytorch.kernels.LinearKernel(ard_num_dims=nd, active_dims=ad))):
            k_act, k_ref = mk(len(dims), tuple(dims)).double(), mk(len(dims), None).double()
            ls = torch.linspace(0.4, 1.7, len(dims), dtype=torch.double).reshape(1, -1)
            for k in (k_act, k_ref):
                if hasattr(k, "lengthscale") and k.has_lengthscale:
                    k.lengthscale = ls
                else:
                    k.variance = ls
            idx = torch.tensor(dims)
            with torch.no_grad():
                want = k_ref(X1[:, idx], X2[:, idx]).to_dense()
                wantd = k_ref(X1[:, idx], X1[:, idx], diag=True)
                for lazy in (True, False):
                    with gpytorch.settings.lazily_evaluate_kernels(lazy):
                        got = k_act(X1, X2).to_dense()
                        gotd = k_act(X1, X1, diag=True)
                        gots = k_act(X1).to_dense()
                    if not torch.allclose(got, want, atol=1e-10):
                        bad.append(f"{name} active_dims={dims} lazy={lazy}: max |k(x1,x2) - k_ref(x1[:,dims],x2[:,dims])| = {(got - want).abs().max().item():.2e}")
                    if not torch.allclose(gotd, wantd, atol=1e-10):
                        bad.append(f"{name} active_dims={dims} lazy={lazy}: diag differs by {(gotd - wantd).abs().max().item():.2e}")
                    if not torch.allclose(gots, k_ref(X1[:, idx]).to_dense(), atol=1e-10):
                        bad.append(f"{name} active_dims={dims} lazy={lazy}: k(x) differs")
    return bad


def replay_call(model, params, clause, info):
    from bounded import C06_enumeration
    if "active_columns" in clause or clause.startswith("call."):
        bad = _active_dims_direct()
        if bad:
            return {"violates": True, "detail": "; ".join(bad[:4])[:700],
                    "entry": {"module": "contracts.C06_lazy_indexing", "function": "replay_call", "args": [model, list(params), clause, info]}}
    r = C06_enumeration.run("quick", 0, only="active_dims")
    return {"violates": bool(r["violations"]), "detail": "; ".join(f"{v['key']}: {v['detail']}" for v in r["violations"][:5])[:700] or "active_dims / diag / lazy-vs-eager agree on the real code",
            "entry": {"module": "contracts.C06_lazy_indexing", "function": "replay_call", "args": [model, list(params), clause, info]}}


@case("C06", clause="composite_getitem", expand=lambda ix: [(cls, n) for cls in ("Additive", "Product") for n in (2, 3)], replay=lambda *a: replay_call(*a),
      functions=[f"{KM}.AdditiveKernel.__getitem__", f"{KM}.ProductKernel.__getitem__"])
def composite_getitem(c, cls, n):
    """(k1 + ... + kn)[idx] is a NEW composite whose i-th part is ki[idx]; the source composite still holds k1..kn afterwards
    (frame: indexing a kernel never writes to the kernel it was applied to)"""
    it, ctx = c.it, c.ctx
    parts = [Stub(f"k{i}", isa=("Kernel",)) for i in range(n)]
    subs = [Stub(f"k{i}[idx]", isa=("Kernel",)) for i in range(n)]
    asked = []
    for i, p in enumerate(parts):
        p.methods["__getitem__"] = (lambda i_: lambda idx: (asked.append((i_, idx)), subs[i_])[1])(i)
    ci = it.index.get_class(f"{KM}.{cls}Kernel")
    o = VObj(ci, label=f"{cls}Kernel")
    kl = VList(parts)
    o.fields.update({"_parameters": VDict(), "_buffers": VDict({"active_dims": NONE}), "_modules": VDict({"kernels": kl}), "_priors": VDict(), "_constraints": VDict(),
                     "_added_loss_terms": VDict(), "training": TRUE, "_batch_shape": size_tuple([]), "ard_num_dims": NONE, "eps": VNum(1e-6), "distance_module": NONE})
    idx = c.int("idx")
    new = it.call(ctx, c.getattr(o, "__getitem__"), [idx], {})
    ok = isinstance(new, VObj) and new is not o and new.cls.name == f"{cls}Kernel"
    c.prove("composite_getitem.returns_a_new_composite", z3.BoolVal(ok))
    if not ok:
        return
    src = c.getattr(o, "kernels")
    c.prove("composite_getitem.source_untouched", z3.BoolVal(isinstance(src, VList) and len(src.items) == n and all(a is b for a, b in zip(src.items, parts))))
    got = c.getattr(new, "kernels")
    c.prove("composite_getitem.parts_are_the_indexed_parts", z3.BoolVal(isinstance(got, VList) and len(got.items) == n and all(a is b for a, b in zip(got.items, subs))))
    c.prove("composite_getitem.each_part_indexed_once_with_the_index", z3.BoolVal(sorted(i for i, _ in asked) == list(range(n)) and all(ix is idx for _, ix in asked)))


@case("C06", clause="kernel_call", name="kernel_call_diag_batched_kernel", expand=lambda ix: [(ate,) for ate in (False, True)], replay=lambda *a: replay_diag_batched(*a), functions=[f"{KM}.Kernel.__call__"])
def kernel_call_diag_batched_kernel(c, forward_ignores_diag):
    """a kernel with batch shape (B,) called on unbatched inputs (n x d) with diag=True: the result is the (B, n) tensor of the B diagonals -- for EVERY B and n, B == n
    included (whether forward honoured the diag flag is a matter of the result's RANK relative to the batch dimensions, never of a coincidence of extents);
    if forward ignored the flag and returned the (B, n, n) matrices, their diagonals are taken"""
    it, ctx = c.it, c.ctx
    n, d, B = c.size("n"), c.size("d"), c.size("B")
    c.assume(z3.And(n.t >= 1, B.t >= 1))
    ci = it.index.get_class(f"{KM}.Kernel")
    o = VObj(ci, label="Kernel")
    o.fields.update({"_parameters": VDict(), "_buffers": VDict({"active_dims": NONE}), "_modules": VDict(), "_priors": VDict(), "_constraints": VDict(),
                     "_added_loss_terms": VDict(), "training": TRUE, "_batch_shape": size_tuple([B.t]), "ard_num_dims": NONE, "eps": VNum(1e-6), "distance_module": NONE})
    KD = sym_tensor("forward_diag", [B.t, n.t])
    KF = sym_tensor("forward_full", [B.t, n.t, n.t])
    fwd = []

    def call_hook(it_, ctx_, fi, args, kwargs):
        if isinstance(fi, tuple) or not args or args[0] is not o:
            return NotImplemented
        if fi.name == "forward":
            fwd.append(dict(kwargs))
            return KF if forward_ignores_diag else KD
        return NotImplemented

    it.call_hooks.append(call_hook)
    ctx.classattrs[("gpytorch.settings.debug", "_state")] = FALSE
    x = sym_tensor("x", [n.t, d.t])
    res = it.call(ctx, c.getattr(o, "__call__"), [x], {"diag": TRUE})
    b, i = ivar("b"), ivar("i")
    c.assume(z3.And(b >= 0, b < B.t, i >= 0, i < n.t))
    ok = hasattr(res, "dims") and len(res.dims) == 2
    want = KF.at([b, i, i]) if forward_ignores_diag else KD.at([b, i])
    c.prove("call.diag.batched_kernel.result_is_the_B_by_n_diagonals", z3.And(res.dims[0].size == B.t, res.dims[1].size == n.t, res.at_dims([b, i]) == want) if ok else z3.BoolVal(False),
            rank=(len(res.dims) if hasattr(res, "dims") else None))


def replay_diag_batched(model, params, clause, info):
    import torch
    import gpytorch
    bad = []
    for B, n in ((4, 4), (4, 5), (3, 3), (2, 6)):
        k = gpytorch.kernels.ScaleKernel(gpytorch.kernels.RBFKernel(batch_shape=torch.Size([B])), batch_shape=torch.Size([B])).double()
        k.base_kernel.lengthscale = torch.linspace(0.3, 1.2, B, dtype=torch.double).reshape(B, 1, 1)
        x = torch.rand(n, 2, dtype=torch.double)
        with torch.no_grad():
            dg = k(x, diag=True)
            full = k(x).to_dense().diagonal(dim1=-1, dim2=-2)
        if dg.shape != full.shape or not torch.allclose(dg, full, atol=1e-12):
            bad.append(f"kernel batch ({B},), x of shape ({n}, 2): k(x, diag=True) has shape {tuple(dg.shape)}, the diagonals of k(x) have shape {tuple(full.shape)}")
    return {"violates": bool(bad), "detail": "; ".join(bad) or "k(x, diag=True) is the diagonal of k(x) for batched kernels on unbatched inputs (real code)",
            "entry": {"module": "contracts.C06_lazy_indexing", "function": "replay_diag_batched", "args": [model, list(params), clause, info]}}
