"""C20 -- global settings are scoped: contracts on every exported settings class.

Functions under contract (real source, extracted every run): __init__/__enter__/__exit__ and the
observers on()/off()/value()/num_probe_vectors() of every class in gpytorch.settings.__all__ and
gpytorch.beta_features.__all__ (linear_operator re-exports are read from the installed package and
flagged `dependency`).

Per class C, for ALL prior states g of C's fields and ALL constructor arguments:
  bracket.ctor_raise_frame   a constructor that raises leaves g unchanged
  bracket.visible[...]       inside the block the observers return the argument ("None keeps" where documented)
  bracket.exit_falsy         __exit__ returns a falsy value (exceptions propagate)
  bracket.restores[F]        after __exit__ (any exc-info arguments) every field F is back to g[F]
  bracket.frame              nothing outside C's own declared fields is written
  bracket.inv_preserved      (dtype contexts) fields with a non-None default never become None
  defaults[...]              with the class-body initial state the observers report the documented default
Composition over all well-nested programs is the induction over this triple (DESIGN C20.4).
"""
from __future__ import annotations

import ast

import z3

from engine.runner import case
from engine.values import NONE, PyRaise, Undecided, V, VAny, VAtom, VBool, VClass, VNum, VStr, VTuple, Val, atom_id

SETTINGS_MODULES = ("gpytorch.settings", "gpytorch.beta_features")

# documented defaults, transcribed from the class docstrings of the pinned tree ("(Default: ...)")
DOC_DEFAULTS = {
    "cg_tolerance": 1, "cholesky_max_tries": 3, "ciq_samples": False, "debug": True, "detach_test_caches": True,
    "deterministic_probes": False, "eval_cg_tolerance": 0.01, "fast_pred_var": False, "fast_pred_samples": False,
    "lazily_evaluate_kernels": True, "max_eager_kernel_size": 512, "max_cholesky_size": 800, "max_cg_iterations": 1000,
    "max_lanczos_quadrature_iterations": 20, "max_preconditioner_size": 15, "max_root_decomposition_size": 100,
    "memory_efficient": False, "min_preconditioning_size": 2000, "minres_tolerance": 1e-4, "num_contour_quadrature": 15,
    "num_gauss_hermite_locs": 20, "num_likelihood_samples": 10, "num_trace_samples": 10, "observation_nan_policy": "ignore",
    "preconditioner_tolerance": 1e-3, "prior_mode": False, "sgpr_diagonal_correction": True, "skip_logdet_forward": False,
    "skip_posterior_variances": False, "terminate_cg_by_size": False, "trace_mode": False, "tridiagonal_jitter": 1e-6,
    "use_keops": True, "use_toeplitz": True, "verbose_linalg": False, "checkpoint_kernel": 0, "default_preconditioner": False,
    "_linalg_dtype_symeig": "torch.double", "_linalg_dtype_cholesky": "torch.double",
    "cholesky_jitter": {"float": 1e-6, "double": 1e-8, "half": None},
    "min_variance": {"float": 1e-6, "double": 1e-10, "half": 1e-3},
    "min_fixed_noise": {"float": 1e-4, "double": 1e-6, "half": 1e-3},
    "variational_cholesky_jitter": {"float": 1e-4, "double": 1e-6, "half": None},
    "fast_pred_var.num_probe_vectors": 1,
    "fast_computations": {"covar_root_decomposition": True, "log_prob": True, "solves": True},
    "linalg_dtypes": {"symeig": "torch.double", "cholesky": "torch.double"},
}
NOT_STATE = {"_default", "_fill_value"}
DERIVED_CACHES = {("deterministic_probes", "probe_vectors")}  # cleared by design on every _set_state
DTYPES = {"float": "torch.float", "double": "torch.double", "half": "torch.half"}


def exported(index):
    out = []
    for modname in SETTINGS_MODULES:
        m = index.get_module(modname)
        names = ast.literal_eval(m.assigns["__all__"])
        for n in names:
            out.append((modname, n))
    # min_fixed_noise is a public settings class used by the noise models although missing from __all__
    m = index.get_module("gpytorch.settings")
    for n, ci in m.classes.items():
        if not n.startswith("_") and ("gpytorch.settings", n) not in out:
            out.append(("gpytorch.settings", n))
    return out


def kind_of(ci):
    names = [c.name if hasattr(c, "name") else str(c) for c in ci.mro()]
    for k in ("_dtype_value_context", "_feature_flag", "_value_context"):
        if k in names:
            return k
    return "composite"


def own_fields(ci):
    fs = []
    for c in ci.mro_classes():
        for a in c.assign_order:
            if a.startswith("_") and not a.startswith("__") and a not in NOT_STATE and a not in fs:
                fs.append(a)
    return fs


def member_classes(c, ci):
    """for composites (fast_computations): class attributes / ctor-created members that are settings classes"""
    out = {}
    for cc in ci.mro_classes():
        for a in cc.assign_order:
            v = c.it.eval(c.ctx, cc.assigns[a], _env(cc))
            if isinstance(v, VClass):
                out[a] = v.info
    return out


def _env(cc):
    from engine.symexec import Env
    return Env(module=cc.module, defcls=cc)


def initial_is_none(c, ci, f):
    owner, expr = ci.find_assign(f)
    return isinstance(expr, ast.Constant) and expr.value is None


def lift(v):
    return v.lift()


def setup_state(c, ci, tag=""):
    """symbolic pre-state for the declared fields of class ci; returns {field: Val term}"""
    pre = {}
    for f in own_fields(ci):
        t = c.any(f"pre{tag}.{ci.name}.{f}")
        pre[f] = t.t
        c.ctx.classattrs[(ci.qualname, f)] = t
    return pre


def visible(c, ci, f):
    return c.it.class_getattr(c.ctx, VClass(ci), f).lift()


def ctor_args(c, ci, tag=""):
    init = ci.find_method("__init__")
    names = [a.arg for a in init.node.args.args][1:]
    return names, {n: c.any(f"arg{tag}.{n}") for n in names}


def frame_ok(c, allowed):
    bad = [w for w in c.ctx.writes if w[0] == "class" and (w[1], w[2]) not in allowed]
    return bad


@case("C20", clause="bracket", expand=lambda index: exported(index), replay=lambda *a: replay_bracket(*a), must_cover=("entered", "exited"),
      functions=["gpytorch.settings._feature_flag.__init__", "gpytorch.settings._feature_flag.__enter__",
                 "gpytorch.settings._feature_flag.__exit__", "gpytorch.settings._feature_flag.on",
                 "gpytorch.settings._feature_flag.off", "gpytorch.settings._feature_flag.is_default",
                 "gpytorch.settings._feature_flag._set_state",
                 "gpytorch.settings._value_context.__init__", "gpytorch.settings._value_context.__enter__",
                 "gpytorch.settings._value_context.__exit__", "gpytorch.settings._value_context.value",
                 "gpytorch.settings._value_context._set_value",
                 "gpytorch.settings._dtype_value_context.__init__", "gpytorch.settings._dtype_value_context.__enter__",
                 "gpytorch.settings._dtype_value_context.__exit__", "gpytorch.settings._dtype_value_context.value",
                 "gpytorch.settings._dtype_value_context._set_value",
                 "gpytorch.settings.fast_pred_var.__init__", "gpytorch.settings.fast_pred_var.__enter__",
                 "gpytorch.settings.fast_pred_var.__exit__", "gpytorch.settings.fast_pred_var.num_probe_vectors",
                 "gpytorch.settings.fast_pred_var._set_num_probe_vectors",
                 "gpytorch.settings.observation_nan_policy.__init__",
                 "gpytorch.settings.variational_cholesky_jitter.value",
                 "gpytorch.beta_features.checkpoint_kernel.__enter__",
                 "linear_operator.settings.fast_computations.__init__ (dependency)",
                 "linear_operator.settings.fast_computations.__enter__ (dependency)",
                 "linear_operator.settings.fast_computations.__exit__ (dependency)",
                 "linear_operator.settings.linalg_dtypes.__init__ (dependency)",
                 "linear_operator.settings.linalg_dtypes.__enter__ (dependency)",
                 "linear_operator.settings.linalg_dtypes.__exit__ (dependency)",
                 "linear_operator.settings.deterministic_probes._set_state (dependency)"])
def bracket(c, modname, name):
    it, ctx = c.it, c.ctx
    m = it.index.get_module(modname)
    r = m.resolve_name(name)
    assert r and r[0] == "class", f"{modname}.{name} is not a class"
    ci = r[1]
    kind = kind_of(ci)
    c.info["class"] = ci.qualname
    cls = VClass(ci)

    if kind == "composite":
        return bracket_composite(c, ci)

    pre = setup_state(c, ci)
    allowed = {(ci.qualname, f) for f in pre} | {(ci.qualname, f) for (n, f) in DERIVED_CACHES if n == ci.name}
    # class invariant (only where None means "keep", so that no method can store None): dtype contexts
    inv_fields = [f for f in pre if kind == "_dtype_value_context" and not initial_is_none(c, ci, f)]
    for f in inv_fields:
        c.assume(z3.Not(Val.is_none(pre[f])), "class invariant: a dtype-context field with a non-None default is never None")
    names, args = ctor_args(c, ci)
    if kind == "_dtype_value_context":
        # documented domain of the per-dtype values: a float or None
        for t in list(pre.values()) + [a.t for a in args.values()]:
            c.assume(z3.Or(Val.is_none(t), Val.is_R(t)), "per-dtype values are floats or None")

    exc = c.raises(lambda: it.call(ctx, cls, [args[n] for n in names], {}))
    if exc is not None:
        c.cover("ctor_raises")
        c.prove("ctor_raise_frame", z3.BoolVal(not [w for w in ctx.writes if w[0] == "class"]))
        return
    x = c.last
    # `warnings.warn` inside __enter__ may raise (warnings-as-errors filter): then __exit__ never runs,
    # so a raising __enter__ must leave the state untouched
    it.warn_may_raise = True
    exc = c.raises(lambda: it.call(ctx, c.getattr(x, "__enter__"), [], {}))
    it.warn_may_raise = False
    if exc is not None:
        c.cover("enter_raises")
        for f in pre:
            c.prove(f"enter_raise_frame[{f}]", visible(c, ci, f) == pre[f])
        return
    c.cover("entered")

    # --- observers inside the block -------------------------------------------------------
    if kind == "_feature_flag":
        st = args["state"].t
        dflt = visible(c, ci, "_default")
        on = it.call(ctx, c.getattr(cls, "on"), [], {})
        c.prove("visible[on]", lift(on) == z3.If(Val.is_none(st), dflt, st))
        off = it.call(ctx, c.getattr(cls, "off"), [], {})
        c.prove("visible[off]", c.truth_term(off) == z3.Not(c.truth_term(on)))
        if "num_probe_vectors" in args:
            npv = it.call(ctx, c.getattr(cls, "num_probe_vectors"), [], {})
            c.prove("visible[num_probe_vectors]", lift(npv) == args["num_probe_vectors"].t)
    elif kind == "_value_context":
        v = it.call(ctx, c.getattr(cls, "value"), [], {})
        c.prove("visible[value]", lift(v) == args["value"].t)
    elif kind == "_dtype_value_context":
        for short, dt in DTYPES.items():
            v = it.call(ctx, c.getattr(cls, "value"), [VAtom(dt)], {})
            a = args[f"{short}_value"].t
            c.prove(f"visible[value({short})]", lift(v) == z3.If(Val.is_none(a), pre[f"_global_{short}_value"], a))
        for f in inv_fields:
            c.prove(f"inv_preserved[{f}]", z3.Not(Val.is_none(visible(c, ci, f))))

    # --- exit, with arbitrary exception-info arguments ------------------------------------------
    ei = [c.any("exc_type"), c.any("exc_value"), c.any("exc_tb")]
    ret = it.call(ctx, c.getattr(x, "__exit__"), ei, {})
    c.prove("exit_falsy", z3.Not(c.truth_term(ret)))
    for f in pre:
        c.prove(f"restores[{f}]", visible(c, ci, f) == pre[f])
    bad = frame_ok(c, allowed)
    c.prove("frame", z3.BoolVal(not bad), writes_outside=[list(b) for b in bad])
    c.cover("exited")


def bracket_composite(c, ci):
    """fast_computations / linalg_dtypes: the state is the union of the member settings' fields"""
    it, ctx = c.it, c.ctx
    cls = VClass(ci)
    names, args = ctor_args(c, ci)
    # members are discovered by running the constructor and looking at the instance fields
    # that hold settings objects
    # symbolic pre-state for every settings class of the owning module that the constructor may touch:
    # set up lazily -- first run ctor on a scratch path to find the member classes
    mod = ci.module
    member_infos = {}
    for cname, cinfo in mod.classes.items():
        if cname.startswith("_fast_") or cname.startswith("_linalg_dtype_"):
            member_infos[cname] = cinfo
    pre = {}
    for cname, cinfo in member_infos.items():
        for f, t in setup_state(c, cinfo).items():
            pre[(cinfo, f)] = t
    allowed = {(cinfo.qualname, f) for (cinfo, f) in pre}
    if ci.name == "linalg_dtypes":
        # arguments are dtypes (never None for `default`)
        c.assume(z3.Not(Val.is_none(args["default"].t)), "linalg_dtypes(default=...) is a dtype, not None")
    x = it.call(ctx, cls, [args[n] for n in names], {})
    it.call(ctx, c.getattr(x, "__enter__"), [], {})
    c.cover("entered")
    members = {f: v for f, v in x.fields.items() if hasattr(v, "cls")}
    touched = set()
    for f, mv in members.items():
        mk = kind_of(mv.cls)
        touched.add(mv.cls.name)
        if mk == "_feature_flag":
            on = it.call(ctx, c.getattr(VClass(mv.cls), "on"), [], {})
            a = args[f].t
            c.prove(f"visible[{f}.on]", lift(on) == z3.If(Val.is_none(a), visible(c, mv.cls, "_default"), a))
        elif mk == "_value_context":
            v = it.call(ctx, c.getattr(VClass(mv.cls), "value"), [], {})
            a = args[f].t
            exp = z3.If(Val.is_none(a), args["default"].t, a) if "default" in args else a
            c.prove(f"visible[{f}.value]", lift(v) == exp)
    c.prove("members_cover_documented_fields",
            z3.BoolVal(set(members) == set(DOC_DEFAULTS[ci.name])), members=sorted(members))
    ei = [c.any("exc_type"), c.any("exc_value"), c.any("exc_tb")]
    ret = it.call(ctx, c.getattr(x, "__exit__"), ei, {})
    c.prove("exit_falsy", z3.Not(c.truth_term(ret)))
    for (cinfo, f), t in pre.items():
        if cinfo.name in touched:
            c.prove(f"restores[{cinfo.name}.{f}]", visible(c, cinfo, f) == t)
    bad = frame_ok(c, allowed)
    c.prove("frame", z3.BoolVal(not bad), writes_outside=[list(b) for b in bad])
    c.cover("exited")




# ------------------------------------------------------------------------------------ defaults
@case("C20", clause="defaults", expand=lambda index: exported(index), replay=lambda *a: replay_default(*a))
def defaults(c, modname, name):
    it, ctx = c.it, c.ctx
    ci = it.index.get_module(modname).resolve_name(name)[1]
    kind = kind_of(ci)
    cls = VClass(ci)
    doc = DOC_DEFAULTS.get(name)
    if doc is None:
        c.fail("documented_default_known", f"no documented default transcribed for {name}")
        return

    def val(x):
        if isinstance(x, bool):
            return Val.B(z3.BoolVal(x))
        if x is None:
            return Val.none
        if isinstance(x, (int, float)):
            return Val.R(z3.RealVal(repr(x)))
        if x.startswith("torch."):
            return VAtom(x).lift()
        return VStr(x).lift()

    if kind == "_feature_flag":
        on = it.call(ctx, c.getattr(cls, "on"), [], {})
        c.prove("default[on]", lift(on) == val(doc))
        if ci.find_method("num_probe_vectors"):
            n = it.call(ctx, c.getattr(cls, "num_probe_vectors"), [], {})
            c.prove("default[num_probe_vectors]", lift(n) == val(DOC_DEFAULTS[name + ".num_probe_vectors"]))
    elif kind == "_value_context":
        v = it.call(ctx, c.getattr(cls, "value"), [], {})
        c.prove("default[value]", lift(v) == val(doc))
    elif kind == "_dtype_value_context":
        for short, dt in DTYPES.items():
            v = it.call(ctx, c.getattr(cls, "value"), [VAtom(dt)], {})
            c.prove(f"default[value({short})]", lift(v) == val(doc[short]))
    else:
        for f, d in doc.items():
            if ci.name == "fast_computations":
                member = c.getattr(cls, f)
                on = it.call(ctx, c.getattr(member, "on"), [], {})
                c.prove(f"default[{f}.on]", lift(on) == val(d))
            else:
                mi = ci.module.classes["_linalg_dtype_" + f]
                v = it.call(ctx, c.getattr(VClass(mi), "value"), [], {})
                c.prove(f"default[{f}.value]", lift(v) == val(d))


# ------------------------------------------------------------------------------------ replay
def _real_class(modname, name):
    import importlib
    return getattr(importlib.import_module(modname), name)


class _Sentinel:
    def __init__(self, n):
        self.n = n

    def __repr__(self):
        return f"<sentinel {self.n}>"


_SENT = {}


def _to_real(v):
    import torch
    if isinstance(v, dict) and "atom" in v:
        n = v["atom"]
        if n.startswith("atom:torch."):
            return getattr(torch, n[len("atom:torch."):])
        if n.startswith("str:"):
            return n[4:]
        return _SENT.setdefault(n, _Sentinel(n))
    if isinstance(v, float) and v == int(v) and abs(v) < 2**53:
        return v
    return v


def replay_bracket_run(modname, name, pre, args, clause):
    """set the real class attributes to `pre`, run `with C(**args)` on the real module, compare."""
    import torch  # noqa: F401
    C = _real_class(modname, name)
    saved = {}
    detail = []
    violates = False

    def targets():
        # (class object, field) pairs named in the model
        for k, v in pre.items():
            cname, f = k.split(".", 1)
            klass = C
            if cname != C.__name__:
                import importlib
                klass = getattr(importlib.import_module(C.__module__), cname)
            yield klass, f, v

    tl = list(targets())
    for klass, f, v in tl:
        saved[(klass, f)] = klass.__dict__.get(f, _Sentinel("absent"))
        setattr(klass, f, _to_real(v))
    try:
        before = {(k, f): getattr(k, f) for k, f, _ in tl}
        try:
            mgr = C(**{k: _to_real(v) for k, v in args.items()})
        except Exception as e:
            after = {(k, f): getattr(k, f) for k, f, _ in tl}
            if after != before:
                violates = True
                detail.append(f"constructor raised {e!r} but changed state")
            return {"violates": violates, "detail": "; ".join(detail) or f"constructor raised {e!r}, state unchanged"}
        try:
            with mgr:
                inside = {(k.__name__, f): getattr(k, f) for k, f, _ in tl}
                raise KeyError("boundary")
        except KeyError:
            pass
        after = {(k, f): getattr(k, f) for k, f, _ in tl}
        for key in before:
            same = after[key] is before[key] or after[key] == before[key]
            if not same:
                violates = True
                detail.append(f"{key[0].__name__}.{key[1]}: before={before[key]!r} after with-block={after[key]!r}")
        if not violates:
            detail.append(f"all fields restored (inside block: {inside})")
    finally:
        for (klass, f), v in saved.items():
            if isinstance(v, _Sentinel) and v.n == "absent":
                try:
                    delattr(klass, f)
                except AttributeError:
                    pass
            else:
                setattr(klass, f, v)
    return {"violates": violates, "detail": "; ".join(detail)}


def replay_bracket(model, params, clause, info):
    modname, name = params
    pre, args = {}, {}
    for k, v in model.items():
        if k.startswith("pre."):
            pre[k[4:]] = v
        elif k.startswith("arg."):
            args[k[4:]] = v
    if clause.startswith("enter_raise_frame"):
        r = replay_enter_raise(modname, name, pre, args, clause)
        r["entry"] = {"module": "contracts.C20_settings", "function": "replay_enter_raise", "args": [modname, name, pre, args, clause]}
        return r
    if clause.startswith("restores") or clause.startswith("ctor_raise") or clause.startswith("inv_preserved"):
        r = replay_bracket_run(modname, name, pre, args, clause)
    else:
        r = replay_observers(modname, name, pre, args, clause)
    r["entry"] = {"module": "contracts.C20_settings", "function": "replay_bracket_run" if "restores" in clause or "ctor" in clause else "replay_observers",
                  "args": [modname, name, pre, args, clause]}
    return r


def replay_observers(modname, name, pre, args, clause):
    import torch
    C = _real_class(modname, name)
    saved = {}
    for k, v in pre.items():
        cname, f = k.split(".", 1)
        if cname == C.__name__:
            saved[f] = C.__dict__.get(f, _Sentinel("absent"))
            setattr(C, f, _to_real(v))
    try:
        ra = {k: _to_real(v) for k, v in args.items()}
        outer = {f: getattr(C, f) for f in saved}
        detail, violates = [], False
        if clause == "frame":
            return {"violates": None, "detail": "frame clause: see writes_outside in info"}
        with C(**ra) as _:
            if clause.startswith("visible[on]") or clause.startswith("visible[off]"):
                exp = ra.get("state", True)
                exp = C._default if exp is None else exp
                got = C.on()
                if clause.startswith("visible[off]"):
                    violates = C.off() != (not C.on())
                else:
                    violates = not (got is exp or got == exp)
                detail.append(f"on()={got!r} expected {exp!r}")
            elif clause.startswith("visible[num_probe_vectors]"):
                got = C.num_probe_vectors()
                violates = got != ra.get("num_probe_vectors", 1)
                detail.append(f"num_probe_vectors()={got!r}")
            elif clause.startswith("visible[value]"):
                got = C.value()
                exp = ra["value"]
                violates = not (got is exp or got == exp)
                detail.append(f"value()={got!r} expected {exp!r}")
            elif clause.startswith("visible[value("):
                short = clause[len("visible[value("):-2]
                dt = getattr(torch, short)
                got = C.value(dt)
                a = ra.get(f"{short}_value")
                exp = outer[f"_global_{short}_value"] if a is None else a
                violates = not (got is exp or got == exp)
                detail.append(f"value({short})={got!r} expected {exp!r}")
            elif clause == "exit_falsy":
                pass
        if clause == "exit_falsy":
            mgr = C(**ra)
            mgr.__enter__()
            rv = mgr.__exit__(None, None, None)
            violates = bool(rv)
            detail.append(f"__exit__ returned {rv!r}")
        return {"violates": violates, "detail": "; ".join(detail)}
    finally:
        for f, v in saved.items():
            if isinstance(v, _Sentinel) and v.n == "absent":
                try:
                    delattr(C, f)
                except AttributeError:
                    pass
            else:
                setattr(C, f, v)


def replay_default(model, params, clause, info):
    import torch
    modname, name = params
    C = _real_class(modname, name)
    doc = DOC_DEFAULTS[name]
    got = exp = None
    if clause == "default[on]":
        got, exp = C.on(), doc
    elif clause == "default[value]":
        got = C.value()
        exp = getattr(torch, doc[6:]) if isinstance(doc, str) and doc.startswith("torch.") else doc
    elif clause.startswith("default[value("):
        short = clause[len("default[value("):-2]
        got, exp = C.value(getattr(torch, short)), doc[short]
    elif clause == "default[num_probe_vectors]":
        got, exp = C.num_probe_vectors(), DOC_DEFAULTS[name + ".num_probe_vectors"]
    else:
        return {"violates": None, "detail": "no replay for this clause"}
    return {"violates": not (got == exp), "detail": f"observer returned {got!r}, documented default {exp!r}",
            "entry": {"module": "contracts.C20_settings", "function": "replay_default", "args": [model, list(params), clause, info]}}


def replay_enter_raise(modname, name, pre, args, clause):
    """with warnings promoted to errors, a raising __enter__ must not have changed the state"""
    import warnings
    C = _real_class(modname, name)
    saved = {}
    for k, v in pre.items():
        cname, f = k.split(".", 1)
        if cname == C.__name__:
            saved[f] = C.__dict__.get(f, _Sentinel("absent"))
            setattr(C, f, _to_real(v))
    try:
        before = {f: getattr(C, f) for f in saved}
        mgr = C(**{k: _to_real(v) for k, v in args.items()})
        raised = None
        with warnings.catch_warnings():
            warnings.simplefilter("error")
            try:
                mgr.__enter__()
            except Warning as w:
                raised = w
        if raised is None:
            return {"violates": False, "detail": "__enter__ did not raise under warnings-as-errors"}
        after = {f: getattr(C, f) for f in saved}
        bad = {f: (before[f], after[f]) for f in before if not (after[f] is before[f] or after[f] == before[f])}
        return {"violates": bool(bad), "detail": f"__enter__ raised {type(raised).__name__}; fields changed although __exit__ never runs: {bad}" if bad else "state unchanged"}
    finally:
        for f, v in saved.items():
            if isinstance(v, _Sentinel) and v.n == "absent":
                try:
                    delattr(C, f)
                except AttributeError:
                    pass
            else:
                setattr(C, f, v)
