"""C03 -- evaluation-mode outputs are history independent: the per-operation cache-invalidation invariant (proof tier).

History independence for ALL finite sequences is an induction over the public state-changing operations with the invariant
    I:  every prediction cache held by the object (ExactGP.prediction_strategy; the kernels' _cached_kernel_mat / _cached_kernel_inv_root;
        a variational strategy's memoised prior / Cholesky factor) was computed from the CURRENT parameters, training data and grid.
Each operation that changes what the caches depend on must re-establish I by dropping them.  The obligations below are that step, operation by
operation, on the real functions; predictions themselves do not change parameters / data (frame), so they preserve I.  The induction itself and
the operations outside the documented invalidation points are exercised on enumerated histories in the bounded tier (never counted as proved).

Functions under contract (real AST): module.Module.{train, _load_from_state_dict}, models.exact_gp.ExactGP.{_clear_cache, set_train_data, train_targets setter},
kernels.inducing_point_kernel.InducingPointKernel._clear_cache, kernels.grid_kernel.GridKernel.{_clear_cache, update_grid},
variational._variational_strategy._VariationalStrategy.{_clear_cache, __call__ (training-mode entry)}.
"""
from __future__ import annotations

import z3

from engine.dom_elem import ivar, sym_tensor
from engine.runner import case
from engine.values import FALSE, NONE, TRUE, PyRaise, VBool, VDict, VList, VNum, VObj, VStr, VTuple
from contracts.C15_objectives import module_obj
from contracts.stubs import Stub

EG = "gpytorch.models.exact_gp.ExactGP"


def exact_model(c, training):
    X, y = sym_tensor("X", [c.size("n").t, c.size("d").t]), sym_tensor("y", [c.size("n").t])
    strat = Stub("stale_prediction_strategy")
    m = module_obj(c, EG, "model", train_inputs=VTuple([X]), _train_targets=y, training=VBool(training), prediction_strategy=strat)
    return m, X, y, strat


@case("C03", clause="train_switch_drops_caches", expand=lambda ix: [(was, mode) for was in (True, False) for mode in (True, False)], replay=lambda *a: replay_c03(*a),
      functions=["gpytorch.module.Module.train", f"{EG}._clear_cache"])
def train_switch(c, was_training, mode):
    """train(True) always drops the prediction strategy (hyper-parameters are about to change); train(False) = eval() drops it when coming from
    training mode (parameters may have changed since the strategy was built); eval() on a model already in eval mode keeps it"""
    it, ctx = c.it, c.ctx
    m, X, y, strat = exact_model(c, was_training)
    it.optable["torch.nn.Module.train"] = lambda it_, ctx_, a, k: (a[0].fields.__setitem__("training", k.get("mode", a[1] if len(a) > 1 else TRUE)), a[0])[1]
    it.call(ctx, c.getattr(m, "train"), [], {"mode": VBool(mode)})
    must_drop = mode or was_training
    got = m.fields.get("prediction_strategy")
    if must_drop:
        c.prove("train.prediction_strategy_dropped", z3.BoolVal(got is NONE))
    else:
        c.prove("train.eval_on_eval_keeps_the_strategy", z3.BoolVal(got is strat))
    c.prove("train.mode_set", z3.BoolVal(isinstance(m.fields.get("training"), VBool) and z3.is_true(m.fields["training"].t) == mode))
    c.prove("train.frame_data_untouched", z3.BoolVal(m.fields["train_inputs"].items[0] is X and m.fields["_train_targets"] is y))


@case("C03", clause="set_train_data_drops_caches", expand=lambda ix: [(gi, gt, strict) for gi in (True, False) for gt in (True, False) for strict in (True, False)], replay=lambda *a: replay_c03(*a),
      functions=[f"{EG}.set_train_data"])
def set_train_data(c, give_inputs, give_targets, strict):
    """whatever is replaced (inputs, targets, both or neither), the prediction strategy is dropped and exactly the given data are installed"""
    it, ctx = c.it, c.ctx
    m, X, y, strat = exact_model(c, False)
    n, d = c.symbols["n"], c.symbols["d"]
    X2, y2 = sym_tensor("X_new", [n, d]), sym_tensor("y_new", [n])
    it.call(ctx, c.getattr(m, "set_train_data"), [], {"inputs": X2 if give_inputs else NONE, "targets": y2 if give_targets else NONE, "strict": VBool(strict)})
    c.prove("set_train_data.prediction_strategy_dropped", z3.BoolVal(m.fields.get("prediction_strategy") is NONE))
    ti = m.fields["train_inputs"]
    c.prove("set_train_data.inputs", z3.BoolVal(len(ti.items) == 1 and ti.items[0] is (X2 if give_inputs else X)))
    c.prove("set_train_data.targets", z3.BoolVal(m.fields["_train_targets"] is (y2 if give_targets else y)))


@case("C03", clause="load_state_dict_drops_caches", expand=lambda ix: [(kind,) for kind in ("exact_gp", "inducing_point_kernel", "grid_kernel", "variational_strategy")], replay=lambda *a: replay_c03(*a),
      functions=["gpytorch.module.Module._load_from_state_dict", f"{EG}._clear_cache", "gpytorch.kernels.inducing_point_kernel.InducingPointKernel._clear_cache",
                 "gpytorch.kernels.grid_kernel.GridKernel._clear_cache", "gpytorch.variational._variational_strategy._VariationalStrategy._clear_cache"])
def load_state_dict(c, kind):
    """Module._load_from_state_dict (called by torch for every module of the tree that load_state_dict visits) first drops that module's caches, then
    delegates to torch with the same arguments"""
    it, ctx = c.it, c.ctx
    delegated = []
    it.optable["torch.nn.Module._load_from_state_dict"] = lambda it_, ctx_, a, k: (delegated.append((list(a), dict(k))), NONE)[1]
    hooks = []
    it.optable["linear_operator.utils.memoize.clear_cache_hook"] = lambda it_, ctx_, a, k: (hooks.append(a[0]), NONE)[1]
    if kind == "exact_gp":
        o, X, y, strat = exact_model(c, False)
    elif kind == "inducing_point_kernel":
        # caches filled by the real evaluation-mode getters (name-agnostic: a consistent rename of the cache attributes stays green)
        from contracts.C09_structured import ipk_with_populated_caches
        o, _rec, _first, ipk_added = ipk_with_populated_caches(c)
        it.optable["torch.nn.Module._load_from_state_dict"] = lambda it_, ctx_, a, k: (delegated.append((list(a), dict(k))), NONE)[1]
    elif kind == "grid_kernel":
        o = module_obj(c, "gpytorch.kernels.grid_kernel.GridKernel", "gk", training=FALSE, _cached_kernel_mat=sym_tensor("Kuu_cached", [c.size("g").t, c.size("g").t]))
    else:
        o = module_obj(c, "gpytorch.variational.variational_strategy.VariationalStrategy", "vs", training=FALSE,
                       _memoize_cache=VDict({("prior_distribution_memo",): Stub("stale_prior"), ("cholesky_factor",): Stub("stale_factor")}))
    sd, md = VDict({}), VDict({})
    mk, uk, em = VList([]), VList([]), VList([])
    it.call(ctx, c.getattr(o, "_load_from_state_dict"), [sd, VStr("prefix."), md, TRUE, mk, uk, em], {})
    if kind == "exact_gp":
        c.prove("load.exact_gp.prediction_strategy_dropped", z3.BoolVal(o.fields.get("prediction_strategy") is NONE))
    elif kind == "inducing_point_kernel":
        c.prove("load.inducing_point_kernel.cached_matrices_dropped", z3.BoolVal(not [a for a in ipk_added if a in o.fields]), still_cached=sorted(a for a in ipk_added if a in o.fields))
    elif kind == "grid_kernel":
        c.prove("load.grid_kernel.cached_matrix_dropped", z3.BoolVal("_cached_kernel_mat" not in o.fields))
    else:
        mc = o.fields.get("_memoize_cache")
        c.prove("load.variational_strategy.memoised_values_dropped", z3.BoolVal(isinstance(mc, VDict) and len(mc.d) == 0))
    ok = len(delegated) == 1 and delegated[0][0][0] is o
    c.prove("load.delegates_to_torch_with_the_same_arguments", z3.BoolVal(ok and delegated[0][0][1] is sd and delegated[0][0][3] is md and delegated[0][0][5] is mk and delegated[0][0][6] is uk and delegated[0][0][7] is em))


@case("C03", clause="grid_update_drops_cache", expand=lambda ix: [(interp,) for interp in (True, False)], replay=lambda *a: replay_c03(*a),
      functions=["gpytorch.kernels.grid_kernel.GridKernel.update_grid", "gpytorch.kernels.grid_kernel.GridKernel._clear_cache"])
def grid_update(c, interpolation_mode):
    """update_grid installs the new grid buffers and drops the cached K_UU -- in interpolation mode too (the eval-mode cache of a KISS-GP kernel
    belongs to the old grid)"""
    it, ctx = c.it, c.ctx
    g = c.size("g")
    old, new = sym_tensor("grid_old", [g.t]), sym_tensor("grid_new", [g.t])
    o = module_obj(c, "gpytorch.kernels.grid_kernel.GridKernel", "gk", training=FALSE, num_dims=VNum(1), interpolation_mode=VBool(interpolation_mode),
                   _cached_kernel_mat=sym_tensor("Kuu_cached", [g.t, g.t]))
    o.fields["_buffers"].d["grid_0"] = old
    full = []

    def grid_hook(it_, ctx_, fi, args, kwargs):
        if not isinstance(fi, tuple) and fi.name == "create_data_from_grid":
            full.append(args[0])
            return sym_tensor("full_grid_new", [g.t, z3.IntVal(1)])
        return NotImplemented

    it.call_hooks.append(grid_hook)
    o.fields["_buffers"].d["full_grid"] = sym_tensor("full_grid_old", [g.t, z3.IntVal(1)])
    res = it.call(ctx, c.getattr(o, "update_grid"), [VList([new])], {})
    c.prove("update_grid.cached_matrix_dropped", z3.BoolVal("_cached_kernel_mat" not in o.fields))
    gb = c.getattr(o, "grid_0")
    i = ivar("i")
    c.assume(z3.And(i >= 0, i < g.t))
    dbg = {"in_fields": str("grid_0" in o.fields), "buf_is_new": str(o.fields["_buffers"].d.get("grid_0") is new), "buf_is_old": str(o.fields["_buffers"].d.get("grid_0") is old), "gb": str(getattr(gb, "label", gb))}
    c.prove("update_grid.new_grid_installed", z3.And(z3.BoolVal(hasattr(gb, "dims") and len(gb.dims) == 1), gb.at_dims([i]) == new.at([i])) if hasattr(gb, "dims") and len(gb.dims) == 1 else z3.BoolVal(False), **dbg)
    c.prove("update_grid.full_grid_rebuilt_unless_interpolating", z3.BoolVal((len(full) == 0) if interpolation_mode else (len(full) == 1)), gb=str(getattr(gb, "describe", lambda: gb)()), full=str(len(full)), keys=str(sorted(o.fields.keys())), bufs=str(sorted(o.fields["_buffers"].d.keys())))
    c.prove("update_grid.returns_self", z3.BoolVal(res is o), gb=str(getattr(gb, "describe", lambda: gb)()), full=str(len(full)), keys=str(sorted(o.fields.keys())), bufs=str(sorted(o.fields["_buffers"].d.keys())))


@case("C03", clause="variational_training_call_drops_caches", expand=lambda ix: [(training,) for training in (True, False)], replay=lambda *a: replay_c03(*a),
      functions=["gpytorch.variational._variational_strategy._VariationalStrategy.__call__", "gpytorch.variational._variational_strategy._VariationalStrategy._clear_cache"])
def variational_call(c, training):
    """a training-mode call of a variational strategy first drops the memoised prior / Cholesky factor (they depend on parameters that the
    optimiser has just changed); an evaluation-mode call keeps them"""
    it, ctx = c.it, c.ctx
    hooks = []
    it.optable["gpytorch.utils.memoize.clear_cache_hook"] = lambda it_, ctx_, a, k: (hooks.append(a[0]), NONE)[1]
    it.optable["linear_operator.utils.memoize.clear_cache_hook"] = lambda it_, ctx_, a, k: (hooks.append(a[0]), NONE)[1]
    o = module_obj(c, "gpytorch.variational.variational_strategy.VariationalStrategy", "vs", training=VBool(training))
    x = sym_tensor("x", [c.size("n").t, c.size("d").t])
    o.fields["_memoize_cache"] = VDict({("prior_distribution_memo",): Stub("stale_prior")})
    # stop right after the invalidation step: the remainder of __call__ (initialisation, forward) is C14's subject
    seen = []

    def stop():
        mc = o.fields.get("_memoize_cache")
        seen.append(len(mc.d) if isinstance(mc, VDict) else None)
        raise PyRaise(_stop_exc())

    o.fields["_buffers"].d["variational_params_initialized"] = Stub("variational_params_initialized", methods={"item": stop})
    o.fields["_buffers"].d["updated_strategy"] = Stub("updated_strategy", methods={"item": lambda: TRUE})
    exc = c.raises(lambda: it.call(ctx, c.getattr(o, "__call__"), [x], {}))
    c.prove("variational_call.reached_the_initialisation_step", z3.BoolVal(exc is not None and exc.clsname == "StopAnalysis" and len(seen) == 1), got=str(exc.describe() if exc else None), seen=str(seen))
    if training:
        c.prove("variational_call.training_mode_drops_memoised_values_first", z3.BoolVal(seen == [0]))
    else:
        c.prove("variational_call.eval_mode_keeps_memoised_values", z3.BoolVal(seen == [1]))


def _stop_exc():
    from engine.values import VExc
    return VExc("StopAnalysis", "end of the analysed prefix")


def replay_c03(model, params, clause, info):
    from bounded import C03_histories as Bd
    import json
    import os
    import re
    r = Bd.run("quick", 0)
    kf = json.load(open(os.path.join(os.path.dirname(os.path.dirname(os.path.abspath(__file__))), "known_findings.json")))
    pats = [re.compile(f["match"]) for f in kf["findings"] if f["property"] == "C03"]
    bad = [v for v in r["violations"] if not any(p.fullmatch("bounded:" + v["key"]) for p in pats)]
    return {"violates": bool(bad), "detail": "; ".join(f"{v['key']}: {v['detail']}" for v in bad[:5])[:700] or "enumerated histories agree with freshly constructed models on the real code (known findings aside)",
            "entry": {"module": "contracts.C03_caches", "function": "replay_c03", "args": [model, list(params), clause, info]}}


@case("C03", clause="settings_read_at_call_time", name="jitter_read_at_call_time", expand=lambda ix: [(explicit,) for explicit in (False, True)], replay=lambda *a: replay_jitter(*a),
      functions=["gpytorch.variational._variational_strategy._VariationalStrategy.jitter_val"])
def jitter_read_at_call_time(c, explicit):
    """predictions depend on 'the settings active at the call': a strategy built without an explicit jitter reads settings.variational_cholesky_jitter at EVERY
    access (two reads under two setting values return those two values) and the read writes nothing on the strategy; an explicit jitter_val is returned as given"""
    it, ctx = c.it, c.ctx
    m, d = c.size("m"), c.size("d")
    Z = sym_tensor("inducing_points", [m.t, d.t])
    Z.meta["dtype"] = __import__("engine.values", fromlist=["VAtom"]).VAtom("torch.double")
    e = c.real("explicit_jitter")
    o = module_obj(c, "gpytorch.variational.variational_strategy.VariationalStrategy", "vs", _jitter_val=(e if explicit else NONE))
    o.fields["_parameters"].d["inducing_points"] = Z
    j1, j2 = c.real("setting_first"), c.real("setting_second")
    for f in ("_global_float_value", "_global_double_value", "_global_half_value"):
        ctx.classattrs[("gpytorch.settings.variational_cholesky_jitter", f)] = j1
    before = dict(o.fields)
    nw = len(ctx.writes)
    v1 = c.getattr(o, "jitter_val")
    for f in ("_global_float_value", "_global_double_value", "_global_half_value"):
        ctx.classattrs[("gpytorch.settings.variational_cholesky_jitter", f)] = j2
    v2 = c.getattr(o, "jitter_val")
    wrote = [w for w in ctx.writes[nw:] if w[0] == "field"]
    changed = sorted(k for k in set(o.fields) | set(before) if o.fields.get(k) is not before.get(k))
    c.prove("jitter.read_writes_nothing_on_the_strategy", z3.BoolVal(not wrote and not changed), writes=[list(map(str, w)) for w in wrote], changed=changed)
    if explicit:
        c.prove("jitter.explicit_value_returned", z3.And(v1.t == e.t, v2.t == e.t))
    else:
        c.prove("jitter.each_read_returns_the_setting_active_at_that_read", z3.And(v1.t == j1.t, v2.t == j2.t))


def replay_jitter(model, params, clause, info):
    import torch
    import gpytorch
    (explicit,) = params

    class G(gpytorch.models.ApproximateGP):
        def __init__(self):
            vd = gpytorch.variational.CholeskyVariationalDistribution(3)
            super().__init__(gpytorch.variational.VariationalStrategy(self, torch.rand(3, 1, dtype=torch.double), vd, **({"jitter_val": 0.05} if explicit else {})))
            self.mean_module, self.covar_module = gpytorch.means.ConstantMean(), gpytorch.kernels.RBFKernel()

        def forward(self, x):
            return gpytorch.distributions.MultivariateNormal(self.mean_module(x), self.covar_module(x))

    g = G().double()
    vs = g.variational_strategy
    keys0 = {k: v for k, v in vs.__dict__.items() if not k.startswith("_modules")}
    a = vs.jitter_val
    with gpytorch.settings.variational_cholesky_jitter(double_value=0.3):
        b = vs.jitter_val
    c_ = vs.jitter_val
    want = (0.05, 0.05, 0.05) if explicit else (1e-6, 0.3, 1e-6)
    same_state = all(vs.__dict__.get(k) is v for k, v in keys0.items()) and set(k for k in vs.__dict__ if not k.startswith("_modules")) == set(keys0)
    bad = (a, b, c_) != want or not same_state
    return {"violates": bool(bad), "detail": f"jitter_val read under default / 0.3 / default: {(a, b, c_)} (expected {want}); strategy attributes unchanged by the reads: {same_state}",
            "entry": {"module": "contracts.C03_caches", "function": "replay_jitter", "args": [model, list(params), clause, info]}}
