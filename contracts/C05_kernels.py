"""C05 -- kernel values equal the documented covariance functions.

Functions under contract (real AST): kernels.kernel.{sq_dist, dist, Kernel.covar_dist}, utils/postprocess_rbf, and `forward` of
RBFKernel, MaternKernel (nu = 1/2, 3/2, 5/2), RQKernel, PeriodicKernel, CosineKernel, LinearKernel, PolynomialKernel,
ConstantKernel, ScaleKernel, AdditiveKernel, ProductKernel, PiecewisePolynomialKernel (q = 0..3), plus the fast paths
functions.RBFCovariance.forward / MaternCovariance.forward.

Every case: symbolic n1 != n2, d, batch size; inputs and hyper-parameters arbitrary symbolic tensors (lengthscale etc. positive);
full matrix and diag=True; x2 is x1 (same data) and x2 different data; ARD and single lengthscale; batch rank 0 and 1.
Spec = class docstring formula, entry (b, i, j) as a function of rows x1[b, i, :] and x2[b, j, :] only.
"""
from __future__ import annotations

import z3

from engine import dom_elem as E
from engine import dom_real
from engine.dom_elem import Dim, VTensor, ivar, mk_sum, sym_tensor
from engine.runner import case
from engine.values import FALSE, NONE, TRUE, VBool, VDict, VList, VNum, VObj, VStr, VTuple

KM = "gpytorch.kernels"


def pos_tensor(c, name, extents):
    t = sym_tensor(name, extents)
    f = t.meta["uf"]
    const = z3.Real(name)

    def elem(idx):
        v = f(*idx) if f is not None else const
        c.ctx.assume(v > 0)
        return v

    t.elem = elem
    return t


def kernel_obj(c, qual, bs, props, **fields):
    """a kernel object in its constructed state; the constrained hyper-parameters (verified in C17 to be
    constraint.transform(raw)) are given as arbitrary positive tensors through `props`"""
    it = c.it
    ci = it.index.get_class(qual)
    o = VObj(ci, label=ci.name)
    o.fields.update({"_parameters": VDict(), "_buffers": VDict({"active_dims": NONE}), "_modules": VDict(), "_priors": VDict(),
                     "_constraints": VDict(), "_added_loss_terms": VDict(), "training": TRUE, "_batch_shape": VTuple([VNum(b) for b in bs], is_size=True),
                     "ard_num_dims": NONE, "eps": VNum(1e-6), "distance_module": NONE})
    o.fields.update(fields)

    def hook(it_, ctx_, obj, name):
        if obj is o and name in props:
            return props[name]
        return None

    it.attr_hooks.append(hook)
    return o


def inputs(c, bs, same):
    n1, n2, d = c.size("n1"), c.size("n2"), c.size("d")
    x1 = sym_tensor("x1", bs + [n1.t, d.t])
    if same:
        x2 = x1
        n2t = n1.t
    else:
        x2 = sym_tensor("x2", bs + [n2.t, d.t])
        n2t = n2.t
    c.it.optable["hook.torch.equal"] = lambda it, ctx, a, k: VBool(same)
    return x1, x2, n1.t, n2t, d.t


def cfgs(ix):
    """(batch rank, ard, same data, diag)"""
    out = []
    for br in (0, 1):
        for ard in (False, True):
            for same in (False, True):
                for diag in (False, True):
                    if diag and not same:
                        continue  # diag=True is documented for x1 == x2
                    out.append((br, ard, same, diag))
    return out


def run_forward(c, o, x1, x2, diag, **kw):
    it, ctx = c.it, c.ctx
    kwargs = {"diag": VBool(diag)}
    kwargs.update(kw)
    return it.call(ctx, c.getattr(o, "forward"), [x1, x2], kwargs)


def entry_idx(c, bs, n1, n2, diag):
    b = [ivar("b") for _ in bs]
    for v, e in zip(b, bs):
        c.assume(z3.And(v >= 0, v < e))
    i = ivar("i")
    j = i if diag else ivar("j")  # diag: the same row index on both sides (not merely an equal one)
    c.assume(z3.And(i >= 0, i < n1, j >= 0, j < n2))
    return b, i, j


def check_shape(c, res, bs, n1, n2, diag, tag):
    want = bs + ([n1] if diag else [n1, n2])
    c.prove(f"{tag}.rank", z3.BoolVal(len(res.dims) == len(want)))
    for p, e in enumerate(want):
        if p < len(res.dims):
            c.prove(f"{tag}.extent[{p}]", res.dims[p].size == e)


def at(res, b, i, j, diag):
    return res.at_dims(b + ([i] if diag else [i, j]))


def sqdist_term(x1, x2, b, i, j, d, ls=None):
    """sum_k ((x1[b,i,k] - x2[b,j,k]) / l_k)^2"""
    def body(k):
        u = x1.at(b + [i, k]) - x2.at(b + [j, k])
        if ls is not None:
            u = u / ls(k)
        return u * u
    return mk_sum(body, d)


def sum_nonneg(c, body_fn, n, why):
    """proof rule: a sum of non-negative summands is non-negative (summand non-negativity is checked by the solver)"""
    k = ivar("kk")
    s = z3.Solver()
    s.set("timeout", 5000)
    s.add(*c.ctx.pc)
    s.add(z3.Not(body_fn(k) >= 0))
    if s.check() == z3.unsat:
        c.ctx.add_axiom(mk_sum(body_fn, n) >= 0, f"sum of non-negative summands is non-negative ({why})")
        return True
    return False


def same_rows(c, body, d, i, j):
    """Leibniz: on the same data, i == j makes the squared distance of rows i and j the squared distance of row i to itself
    (the reduction atoms for (i, j) and (i, i) are different function symbols, so the instance is supplied explicitly)"""
    if i is j:
        return
    k = ivar("kk")
    b_ij = body(k)
    b_ii = z3.substitute(b_ij, (j, i))
    c.ctx.add_axiom(z3.Implies(i == j, mk_sum(body, d) == mk_sum(lambda kk_: z3.substitute(body(kk_), (j, i)), d)),
                    "substitution of equals in a reduction (i == j)")


# ------------------------------------------------------------------------------ helpers -----------------
@case("C05", clause="sq_dist", expand=lambda ix: [(br, same, rg) for br in (0, 1) for same in (False, True) for rg in (False, True)],
      replay=lambda *a: replay_kernel(*a), functions=[f"{KM}.kernel.sq_dist"])
def sq_dist(c, br, same, requires_grad):
    it, ctx = c.it, c.ctx
    bs = [c.size("b").t] if br else []
    x1, x2, n1, n2, d = inputs(c, bs, same)
    x1.requires_grad = requires_grad
    b, i, j = entry_idx(c, bs, n1, n2, False)
    body = lambda k: (x1.at(b + [i, k]) - x2.at(b + [j, k])) * (x1.at(b + [i, k]) - x2.at(b + [j, k]))
    sum_nonneg(c, body, d, "squared differences")
    if same:
        same_rows(c, body, d, i, j)
    res = it.call(ctx, c.func(f"{KM}.kernel.sq_dist"), [x1, x2], {"x1_eq_x2": VBool(same)})
    check_shape(c, res, bs, n1, n2, False, "sq_dist")
    c.prove("sq_dist.value", at(res, b, i, j, False) == mk_sum(body, d))
    c.prove("sq_dist.nonneg", at(res, b, i, j, False) >= 0)
    if same:
        c.prove("sq_dist.zero_diagonal", z3.Implies(i == j, at(res, b, i, j, False) == 0))


@case("C05", clause="covar_dist", expand=lambda ix: [(br, same, diag, sq) for br in (0, 1) for same in (False, True) for diag in (False, True) for sq in (False, True)],
      replay=lambda *a: replay_kernel(*a), functions=[f"{KM}.kernel.Kernel.covar_dist", f"{KM}.kernel.dist", f"{KM}.kernel.sq_dist"])
def covar_dist(c, br, same, diag, square):
    """Euclidean (squared) distance between rows; the non-squared full matrix is floored at 1e-15 (stated numerical guard)"""
    it, ctx = c.it, c.ctx
    bs = [c.size("b").t] if br else []
    x1, x2, n1, n2, d = inputs(c, bs, same)
    if diag and not same:
        c.assume(n1 == n2)
    o = kernel_obj(c, f"{KM}.rbf_kernel.RBFKernel", bs, {})
    b, i, j = entry_idx(c, bs, n1, n2, diag)
    body = lambda k: (x1.at(b + [i, k]) - x2.at(b + [j, k])) * (x1.at(b + [i, k]) - x2.at(b + [j, k]))
    sum_nonneg(c, body, d, "squared differences")
    if same and not diag:
        same_rows(c, body, d, i, j)
    res = it.call(ctx, c.getattr(o, "covar_dist"), [x1, x2], {"diag": VBool(diag), "square_dist": VBool(square)})
    check_shape(c, res, bs, n1, n2, diag, "covar_dist")
    S = mk_sum(body, d)
    got = at(res, b, i, j, diag)
    if square:
        c.prove("covar_dist.squared", got == S)
    else:
        r = dom_real.apply(ctx, "sqrt", S)
        if diag:
            c.prove("covar_dist.euclidean_diag", z3.And(got >= 0, got * got == S))
        else:
            # sqrt(S) floored at 1e-15 (as sqrt(max(S, 1e-30)) on the x1 == x2 path)
            c.prove("covar_dist.euclidean_floored", z3.And(got >= z3.RealVal("1e-15"), z3.Or(got * got == S, z3.And(S <= z3.RealVal("1e-30"), got == z3.RealVal("1e-15")))))


class DistContract:
    """callee contract of Kernel.covar_dist for the kernels that call it (proved by the covar_dist cases):
    squared: sum_k (u_k - v_k)^2;  plain full: a value r >= 1e-15 with r^2 = that sum (or the floor);  plain diag: r >= 0, r^2 = sum"""

    def __init__(self, c, o):
        self.c = c
        self.calls = []
        c.it.call_hooks.append(self.hook)
        self.o = o

    def hook(self, it, ctx, fi, args, kwargs):
        if isinstance(fi, tuple) or fi.name != "covar_dist" or not args or args[0] is not self.o:
            return NotImplemented
        u, v = args[1].frozen(), args[2].frozen()
        diag = kwargs.get("diag", FALSE)
        diag = bool(diag.concrete()) if isinstance(diag, VBool) else False
        sq = kwargs.get("square_dist", FALSE)
        sq = bool(sq.concrete()) if isinstance(sq, VBool) else False
        ldb = kwargs.get("last_dim_is_batch", FALSE)
        if isinstance(ldb, VBool) and ldb.concrete():
            u = E.unsqueeze(ctx, E.transpose(ctx, u, -1, -2), -1)
            v = E.unsqueeze(ctx, E.transpose(ctx, v, -1, -2), -1)
        self.calls.append((u, v, diag, sq))
        lead = u.dims[:-2]
        d = u.dims[-1].size
        nl = sum(len(x.atoms) for x in lead)
        R = z3.Function(f"DIST{len(self.calls)}", z3.RealSort(), z3.RealSort())

        def S(idx_lead, i, j):
            return mk_sum(lambda k: (u.elem(idx_lead + [i, k]) - v.elem(idx_lead + [j, k])) * (u.elem(idx_lead + [i, k]) - v.elem(idx_lead + [j, k])), d)

        def elem(idx):
            il = idx[:nl]
            i = idx[nl]
            j = idx[nl] if diag else idx[nl + 1]
            s = S(il, i, j)
            if sq:
                return s
            r = R(s)
            if diag:
                ctx.assume(z3.And(r >= 0, r * r == s))
            else:
                ctx.assume(z3.And(r >= z3.RealVal("1e-15"), z3.Or(r * r == s, z3.And(s <= z3.RealVal("1e-30"), r == z3.RealVal("1e-15")))))
            return r

        dims = lead + ([u.dims[-2]] if diag else [u.dims[-2], v.dims[-2]])
        self.R = R
        self.result = VTensor(dims, elem, "real")
        return self.result

    def value_at(self, i, j):
        """the callee's result at (i, j) of the last call (no batch)"""
        return self.result.elem([i, j])


def lengthscale(c, bs, d, ard):
    ls = pos_tensor(c, "lengthscale", bs + [z3.IntVal(1), d if ard else z3.IntVal(1)])
    return ls, (lambda b: (lambda k: ls.at(b + [z3.IntVal(0), k if ard else z3.IntVal(0)])))


def scaled_sq(x1, x2, b, i, j, d, lsf, ctx=None):
    from engine import values as _v
    ctx = ctx or _v._CUR[0]
    q = lambda k: dom_real.rdiv(ctx, x1.at(b + [i, k]) - x2.at(b + [j, k]), lsf(k))
    return mk_sum(lambda k: q(k) * q(k), d)


# ------------------------------------------------------------------------------ stationary kernels -------
@case("C05", clause="rbf", expand=cfgs, replay=lambda *a: replay_kernel(*a), functions=[f"{KM}.rbf_kernel.RBFKernel.forward", f"{KM}.rbf_kernel.postprocess_rbf"])
def rbf(c, br, ard, same, diag):
    """k = exp(-1/2 sum_k ((x1_k - x2_k) / l_k)^2)"""
    it, ctx = c.it, c.ctx
    bs = [c.size("b").t] if br else []
    x1, x2, n1, n2, d = inputs(c, bs, same)
    ls, lsf = lengthscale(c, bs, d, ard)
    o = kernel_obj(c, f"{KM}.rbf_kernel.RBFKernel", bs, {"lengthscale": ls}, ard_num_dims=(VNum(d) if ard else NONE))
    DistContract(c, o)
    x1.requires_grad = True  # the generic (autograd) path; the hand-written fast path is the `rbf_fast` clause
    res = run_forward(c, o, x1, x2, diag)
    check_shape(c, res, bs, n1, n2, diag, "rbf")
    b, i, j = entry_idx(c, bs, n1, n2, diag)
    want = dom_real.apply(ctx, "exp", -scaled_sq(x1, x2, b, i, j, d, lsf(b)) / 2)
    c.prove_identity("rbf.value", at(res, b, i, j, diag), want)


@case("C05", clause="matern", expand=lambda ix: [(nu,) + t for nu in ("0.5", "1.5", "2.5") for t in cfgs(ix)], replay=lambda *a: replay_kernel(*a),
      functions=[f"{KM}.matern_kernel.MaternKernel.forward"])
def matern(c, nu, br, ard, same, diag):
    """k = p_nu(sqrt(2 nu) r) exp(-sqrt(2 nu) r), r = ||(x1 - x2) / l||, p = 1, 1 + t, 1 + t + t^2/3"""
    it, ctx = c.it, c.ctx
    bs = [c.size("b").t] if br else []
    x1, x2, n1, n2, d = inputs(c, bs, same)
    ls, lsf = lengthscale(c, bs, d, ard)
    o = kernel_obj(c, f"{KM}.matern_kernel.MaternKernel", bs, {"lengthscale": ls}, ard_num_dims=(VNum(d) if ard else NONE), nu=VNum(float(nu)))
    dc = DistContract(c, o)
    x1.requires_grad = True
    res = run_forward(c, o, x1, x2, diag)
    check_shape(c, res, bs, n1, n2, diag, "matern")
    b, i, j = entry_idx(c, bs, n1, n2, diag)
    got = at(res, b, i, j, diag)
    # the distance the kernel used (by the covar_dist contract): r with r^2 = sum ((x1 - m)/l - (x2 - m)/l)^2 = sum ((x1-x2)/l)^2
    u, v, dg, sq = dc.calls[-1]
    S_code = mk_sum(lambda k: (u.at(b + [i, k]) - v.at(b + [j, k])) * (u.at(b + [i, k]) - v.at(b + [j, k])), d)
    c.prove_identity("matern.distance_is_scaled_euclidean", S_code, scaled_sq(x1, x2, b, i, j, d, lsf(b)))
    r = dc.R(S_code)
    two_nu = {"0.5": 1, "1.5": 3, "2.5": 5}[nu]
    s = dom_real.apply(ctx, "sqrt", z3.RealVal(two_nu)) if two_nu != 1 else z3.RealVal(1)
    t = s * r
    poly = {"0.5": z3.RealVal(1), "1.5": 1 + t, "2.5": 1 + t + (z3.RealVal(5) / 3) * r * r}[nu]
    want = poly * dom_real.apply(ctx, "exp", -t)
    c.prove_identity("matern.value", got, want)


@case("C05", clause="rq", expand=cfgs, replay=lambda *a: replay_kernel(*a), functions=[f"{KM}.rq_kernel.RQKernel.forward"])
def rq(c, br, ard, same, diag):
    """k = (1 + sum_k ((x1_k - x2_k)/l_k)^2 / (2 alpha))^(-alpha)"""
    it, ctx = c.it, c.ctx
    bs = [c.size("b").t] if br else []
    x1, x2, n1, n2, d = inputs(c, bs, same)
    ls, lsf = lengthscale(c, bs, d, ard)
    alpha = pos_tensor(c, "alpha", bs + [z3.IntVal(1)])
    o = kernel_obj(c, f"{KM}.rq_kernel.RQKernel", bs, {"lengthscale": ls, "alpha": alpha}, ard_num_dims=(VNum(d) if ard else NONE))
    DistContract(c, o)
    res = run_forward(c, o, x1, x2, diag)
    check_shape(c, res, bs, n1, n2, diag, "rq")
    b, i, j = entry_idx(c, bs, n1, n2, diag)
    al = alpha.at(b + [z3.IntVal(0)])
    want = dom_real.fn("pow", 2)(1 + scaled_sq(x1, x2, b, i, j, d, lsf(b)) / (2 * al), -al)
    c.prove("rq.value", at(res, b, i, j, diag) == want)


@case("C05", clause="periodic", expand=cfgs, replay=lambda *a: replay_kernel(*a), functions=[f"{KM}.periodic_kernel.PeriodicKernel.forward"])
def periodic(c, br, ard, same, diag):
    """k = exp(-2 sum_k sin^2(pi |x1_k - x2_k| / p_k) / l_k)"""
    it, ctx = c.it, c.ctx
    bs = [c.size("b").t] if br else []
    x1, x2, n1, n2, d = inputs(c, bs, same)
    shp = bs + [z3.IntVal(1), d if ard else z3.IntVal(1)]
    ls, per = pos_tensor(c, "lengthscale", shp), pos_tensor(c, "period_length", shp)
    o = kernel_obj(c, f"{KM}.periodic_kernel.PeriodicKernel", bs, {"lengthscale": ls, "period_length": per}, ard_num_dims=(VNum(d) if ard else NONE))
    dc = DistContract(c, o)
    res = run_forward(c, o, x1, x2, diag)
    check_shape(c, res, bs, n1, n2, diag, "periodic")
    b, i, j = entry_idx(c, bs, n1, n2, diag)
    pi = dom_real.pi(ctx)
    kk = lambda k: (k if ard else z3.IntVal(0))

    def body(k):
        # per-dimension distance handed out by the covar_dist contract for the 1-d slices (last_dim_is_batch=True)
        u, v, dg, sq = dc.calls[-1]
        s = (u.at(b + [k, i, z3.IntVal(0)]) - v.at(b + [k, j, z3.IntVal(0)])) * (u.at(b + [k, i, z3.IntVal(0)]) - v.at(b + [k, j, z3.IntVal(0)]))
        r = dc.R(z3.simplify(s))
        sn = dom_real.apply(ctx, "sin", r)
        return dom_real.rdiv(ctx, sn * sn, ls.at(b + [z3.IntVal(0), kk(k)])) if ard else sn * sn

    # (single lengthscale: the common factor 1/l stands in front of the sum)
    total = mk_sum(body, d) if ard else dom_real.rdiv(ctx, mk_sum(body, d), ls.at(b + [z3.IntVal(0), z3.IntVal(0)]))
    want = dom_real.apply(ctx, "exp", -2 * total)
    c.prove("periodic.value", at(res, b, i, j, diag) == want)
    # the per-dimension distance argument is pi (x1_k - x2_k) / p_k
    u, v, dg, sq = dc.calls[-1]
    k0 = ivar("k0")
    c.assume(z3.And(k0 >= 0, k0 < d))
    pk = per.at(b + [z3.IntVal(0), kk(k0)])
    c.prove_identity("periodic.argument", u.at(b + [k0, i, z3.IntVal(0)]) - v.at(b + [k0, j, z3.IntVal(0)]),
                     dom_real.rdiv(ctx, x1.at(b + [i, k0]) - x2.at(b + [j, k0]), dom_real.rdiv(ctx, pk, pi)))


@case("C05", clause="cosine", expand=lambda ix: [(br, same) for br in (0, 1) for same in (False, True)], replay=lambda *a: replay_kernel(*a),
      functions=[f"{KM}.cosine_kernel.CosineKernel.forward"])
def cosine(c, br, same):
    """k = cos(pi ||x1 - x2|| / p)"""
    it, ctx = c.it, c.ctx
    bs = [c.size("b").t] if br else []
    x1, x2, n1, n2, d = inputs(c, bs, same)
    per = pos_tensor(c, "period_length", bs + [z3.IntVal(1), z3.IntVal(1)])
    o = kernel_obj(c, f"{KM}.cosine_kernel.CosineKernel", bs, {"period_length": per})
    dc = DistContract(c, o)
    res = run_forward(c, o, x1, x2, False)
    check_shape(c, res, bs, n1, n2, False, "cosine")
    b, i, j = entry_idx(c, bs, n1, n2, False)
    u, v, dg, sq = dc.calls[-1]
    S_code = mk_sum(lambda k: (u.at(b + [i, k]) - v.at(b + [j, k])) * (u.at(b + [i, k]) - v.at(b + [j, k])), d)
    p = per.at(b + [z3.IntVal(0), z3.IntVal(0)])
    c.prove_identity("cosine.distance_scaled_by_period", S_code, scaled_sq(x1, x2, b, i, j, d, lambda k: p))
    c.prove("cosine.value", at(res, b, i, j, False) == dom_real.apply(ctx, "cos", dc.R(S_code) * dom_real.pi(ctx)))


# ------------------------------------------------------------------------------ dot-product kernels -------
@case("C05", clause="linear", expand=lambda ix: [(br, same, diag) for br in (0, 1) for same in (False, True) for diag in (False, True) if same or not diag],
      replay=lambda *a: replay_kernel(*a), functions=[f"{KM}.linear_kernel.LinearKernel.forward"])
def linear(c, br, same, diag):
    """k = v x1^T x2"""
    it, ctx = c.it, c.ctx
    bs = [c.size("b").t] if br else []
    x1, x2, n1, n2, d = inputs(c, bs, same)
    var = pos_tensor(c, "variance", bs + [z3.IntVal(1), z3.IntVal(1)])
    o = kernel_obj(c, f"{KM}.linear_kernel.LinearKernel", bs, {"variance": var})
    res = run_forward(c, o, x1, x2, diag)
    check_shape(c, res, bs, n1, n2, diag, "linear")
    b, i, j = entry_idx(c, bs, n1, n2, diag)
    v = var.at(b + [z3.IntVal(0), z3.IntVal(0)])
    sv = dom_real.apply(ctx, "sqrt", v)
    want = mk_sum(lambda k: (x1.at(b + [i, k]) * sv) * (x2.at(b + [j, k]) * sv), d)
    c.prove("linear.value_with_sqrt_factors", at(res, b, i, j, diag) == want)
    # sqrt(v) * sqrt(v) = v: the documented v * <x1, x2>
    c.prove("linear.value", at(res, b, i, j, diag) == v * mk_sum(lambda k: x1.at(b + [i, k]) * x2.at(b + [j, k]), d))


@case("C05", clause="polynomial", expand=lambda ix: [(br, same, diag, p) for br in (0, 1) for same in (False, True) for diag in (False, True) for p in (1, 2, 3) if same or not diag],
      replay=lambda *a: replay_kernel(*a), functions=[f"{KM}.polynomial_kernel.PolynomialKernel.forward"])
def polynomial(c, br, same, diag, power):
    """k = (x1^T x2 + c)^p"""
    it, ctx = c.it, c.ctx
    bs = [c.size("b").t] if br else []
    x1, x2, n1, n2, d = inputs(c, bs, same)
    off = pos_tensor(c, "offset", bs + [z3.IntVal(1)])
    o = kernel_obj(c, f"{KM}.polynomial_kernel.PolynomialKernel", bs, {"offset": off}, power=VNum(power))
    res = run_forward(c, o, x1, x2, diag)
    check_shape(c, res, bs, n1, n2, diag, "polynomial")
    b, i, j = entry_idx(c, bs, n1, n2, diag)
    base = mk_sum(lambda k: x1.at(b + [i, k]) * x2.at(b + [j, k]), d) + off.at(b + [z3.IntVal(0)])
    want = base
    for _ in range(power - 1):
        want = want * base
    c.prove("polynomial.value", at(res, b, i, j, diag) == want)


@case("C05", clause="constant", expand=lambda ix: [(br, diag) for br in (0, 1) for diag in (False, True)], replay=lambda *a: replay_kernel(*a),
      functions=[f"{KM}.constant_kernel.ConstantKernel.forward"])
def constant(c, br, diag):
    it, ctx = c.it, c.ctx
    bs = [c.size("b").t] if br else []
    x1, x2, n1, n2, d = inputs(c, bs, diag)
    const = pos_tensor(c, "constant", bs + [z3.IntVal(1)])
    o = kernel_obj(c, f"{KM}.constant_kernel.ConstantKernel", bs, {"constant": const})
    res = run_forward(c, o, x1, x2, diag)
    check_shape(c, res, bs, n1, n2, diag, "constant")
    b, i, j = entry_idx(c, bs, n1, n2, diag)
    c.prove("constant.value", at(res, b, i, j, diag) == const.at(b + [z3.IntVal(0)]))


# ------------------------------------------------------------------------------ composition ---------------
class BaseKernelStub:
    """a sub-kernel represented by its contract: forward(x1, x2, diag) returns an arbitrary matrix / diagonal of the right
    shape whose entry (b, i, j) is K(b, i, j) for THIS call's inputs (the same function for the full and the diag call)"""

    def __init__(self, c, name, bs, n1, n2, qual=f"{KM}.rbf_kernel.RBFKernel"):
        self.c, self.name = c, name
        self.K = sym_tensor(f"K_{name}", bs + [n1, n2])
        self.o = kernel_obj(c, qual, bs, {})
        self.calls = []
        c.it.call_hooks.append(self.hook)

    def hook(self, it, ctx, fi, args, kwargs):
        if isinstance(fi, tuple) or not args or args[0] is not self.o or fi.name not in ("forward", "__call__"):
            return NotImplemented
        diag = kwargs.get("diag", FALSE)
        diag = bool(diag.concrete()) if isinstance(diag, VBool) else False
        self.calls.append((fi.name, args[1], args[2] if len(args) > 2 else None, dict(kwargs)))
        if diag:
            return E.diagonal(ctx, self.K, -2, -1).copy(view_of=None)
        return self.K.frozen()


@case("C05", clause="scale", expand=lambda ix: [(br, diag) for br in (0, 1) for diag in (False, True)], replay=lambda *a: replay_kernel(*a),
      functions=[f"{KM}.scale_kernel.ScaleKernel.forward"])
def scale(c, br, diag):
    """K_scaled = outputscale * K_base"""
    it, ctx = c.it, c.ctx
    bs = [c.size("b").t] if br else []
    x1, x2, n1, n2, d = inputs(c, bs, diag)
    base = BaseKernelStub(c, "base", bs, n1, n2)
    osc = pos_tensor(c, "outputscale", bs)
    o = kernel_obj(c, f"{KM}.scale_kernel.ScaleKernel", bs, {"outputscale": osc})
    o.fields["_modules"].d["base_kernel"] = base.o
    res = run_forward(c, o, x1, x2, diag)
    check_shape(c, res, bs, n1, n2, diag, "scale")
    b, i, j = entry_idx(c, bs, n1, n2, diag)
    c.prove("scale.value", at(res, b, i, j, diag) == osc.at(b) * base.K.at(b + [i, j]))
    c.prove("scale.base_called_on_same_inputs", z3.BoolVal(len(base.calls) == 1 and base.calls[0][1] is x1 and base.calls[0][2] is x2))


@case("C05", clause="sum_product", expand=lambda ix: [(op, k, diag) for op in ("Additive", "Product") for k in (2, 3) for diag in (False, True)],
      replay=lambda *a: replay_kernel(*a), functions=[f"{KM}.kernel.AdditiveKernel.forward", f"{KM}.kernel.ProductKernel.forward"])
def sum_product(c, op, k, diag):
    """sums / products of kernels evaluate to the sums / products of their parts (k = 2, 3 parts enumerated)"""
    it, ctx = c.it, c.ctx
    bs = []
    x1, x2, n1, n2, d = inputs(c, bs, diag)
    parts = [BaseKernelStub(c, f"part{m}", bs, n1, n2) for m in range(k)]
    o = kernel_obj(c, f"{KM}.kernel.{op}Kernel", bs, {})
    o.fields["kernels"] = VList([p.o for p in parts])
    res = run_forward(c, o, x1, x2, diag)
    from engine.dom_elem import VTensor as _VT
    if not isinstance(res, _VT):
        c.fail("sum_product.result_is_a_matrix", f"got {res.describe()}")
        return
    check_shape(c, res, bs, n1, n2, diag, "sum_product")
    b, i, j = entry_idx(c, bs, n1, n2, diag)
    want = parts[0].K.at([i, j])
    for p in parts[1:]:
        want = (want + p.K.at([i, j])) if op == "Additive" else (want * p.K.at([i, j]))
    c.prove("sum_product.value", at(res, b, i, j, diag) == want)


@case("C05", clause="sum_product", name="kernel_operators", replay=lambda *a: replay_kernel(*a),
      expand=lambda ix: [(op, ks, ko) for op in ("add", "mul") for ks in ("leaf", "Additive", "Product") for ko in ("leaf", "Additive", "Product")],
      functions=[f"{KM}.kernel.Kernel.__add__", f"{KM}.kernel.Kernel.__mul__", f"{KM}.kernel.AdditiveKernel.__init__", f"{KM}.kernel.ProductKernel.__init__",
                 f"{KM}.kernel.AdditiveKernel.forward", f"{KM}.kernel.ProductKernel.forward"])
def kernel_operators(c, op, kind_self, kind_other):
    """k1 + k2 / k1 * k2 (with the flattening of nested sums / products the operators perform) evaluate to the sum / product of
    the operands' values, whatever the operands are: a leaf kernel, a sum of two kernels or a product of two kernels.
    Callee contract of Kernel.__call__ on an operand (C06): the dense value of operand.forward on the same inputs."""
    it, ctx = c.it, c.ctx
    bs = []
    x1, x2, n1, n2, d = inputs(c, bs, False)
    composites = []

    def operand(kind, tag):
        if kind == "leaf":
            p = BaseKernelStub(c, f"{tag}", bs, n1, n2)
            return p.o, (lambda i, j: p.K.at([i, j]))
        p, q = BaseKernelStub(c, f"{tag}p", bs, n1, n2), BaseKernelStub(c, f"{tag}q", bs, n1, n2)
        o = kernel_obj(c, f"{KM}.kernel.{kind}Kernel", bs, {})
        o.fields["kernels"] = VList([p.o, q.o])
        composites.append(o)
        if kind == "Additive":
            return o, (lambda i, j: p.K.at([i, j]) + q.K.at([i, j]))
        return o, (lambda i, j: p.K.at([i, j]) * q.K.at([i, j]))

    a, va = operand(kind_self, "s")
    b_, vb = operand(kind_other, "o")

    def call_hook(it_, ctx_, fi, args, kwargs):
        if isinstance(fi, tuple) or not args or fi.name != "__call__" or not any(args[0] is o for o in composites):
            return NotImplemented
        return it_.call(ctx_, c.getattr(args[0], "forward"), list(args[1:]), dict(kwargs))

    it.call_hooks.append(call_hook)
    res_k = it.call(ctx, c.func(f"{KM}.kernel.Kernel.__{op}__"), [a, b_], {})
    want_cls = "AdditiveKernel" if op == "add" else "ProductKernel"
    c.prove("operators.result_class", z3.BoolVal(isinstance(res_k, VObj) and res_k.cls.name == want_cls))
    if not isinstance(res_k, VObj):
        return
    composites.append(res_k)
    res = run_forward(c, res_k, x1, x2, False)
    from engine.dom_elem import VTensor as _VT
    if not isinstance(res, _VT):
        c.fail("operators.result_is_a_matrix", f"got {res.describe()}")
        return
    check_shape(c, res, bs, n1, n2, False, "operators")
    b, i, j = entry_idx(c, bs, n1, n2, False)
    want = (va(i, j) + vb(i, j)) if op == "add" else (va(i, j) * vb(i, j))
    c.prove("operators.value", at(res, b, i, j, False) == want)


# ------------------------------------------------------------------------------ piecewise polynomial ------
@case("C05", clause="piecewise_polynomial", expand=lambda ix: [(q,) for q in (0, 1, 2, 3)], replay=lambda *a: replay_pp(*a),
      functions=[f"{KM}.piecewise_polynomial_kernel._get_cov", f"{KM}.piecewise_polynomial_kernel.fmax"])
def piecewise_cov(c, q):
    """the polynomial factor of the documented k_ppD,q (Rasmussen & Williams eq. 4.21), j = floor(D/2) + q + 1"""
    it, ctx = c.it, c.ctx
    r, j = c.real("r"), c.real("j")
    c.assume(z3.And(r.t >= 0, j.t >= 1))
    res = it.call(ctx, c.func(f"{KM}.piecewise_polynomial_kernel._get_cov"), [E.scalar(r.t), j, VNum(q)], {})
    rr, jj = r.t, j.t
    doc = {0: z3.RealVal(1), 1: (jj + 1) * rr + 1, 2: 1 + (jj + 2) * rr + (jj * jj + 4 * jj + 3) / 3 * rr * rr,
           3: 1 + (jj + 3) * rr + (6 * jj * jj + 36 * jj + 45) / 15 * rr * rr + (jj * jj * jj + 9 * jj * jj + 23 * jj + 15) / 15 * rr * rr * rr}[q]
    got = res.at([]) if hasattr(res, "at") else res.real()
    c.prove("piecewise.polynomial_factor", got == doc, q=q)


# ------------------------------------------------------------------------------ replay --------------------
def _spec_fns():
    import math
    import torch

    def sq(x1, x2, ls=1.0):
        d = (x1.unsqueeze(-2) - x2.unsqueeze(-3)) / (ls.unsqueeze(-2) if torch.is_tensor(ls) else ls)
        return (d ** 2).sum(-1)

    return sq


def replay_kernel(model, params, clause, info):
    """every kernel clause: the real kernel (dense, float64) against the documented formula on random inputs with n1 != n2,
    ARD and non-ARD, batch rank 0/1, full and diag, x1 == x2 and x1 != x2"""
    import math
    import torch
    import gpytorch
    from gpytorch import kernels as K
    torch.manual_seed(0)
    sq = _spec_fns()
    detail, bad = [], False
    fam = clause.split(".")[0]
    fam = {"operators": "sum_product"}.get(fam, fam)
    for bs in ([], [2]):
        for ard in (False, True):
            d = 3
            x1 = torch.randn(*bs, 4, d, dtype=torch.double)
            x2s = [x1, torch.randn(*bs, 5, d, dtype=torch.double)]
            kw = dict(batch_shape=torch.Size(bs))
            if ard:
                kw["ard_num_dims"] = d

            def rnd(k, shape_like):
                with torch.no_grad():
                    return 0.4 + torch.rand_like(shape_like)

            cands = []
            if fam in ("rbf", "sq_dist", "covar_dist"):
                k = K.RBFKernel(**kw).double()
                k.lengthscale = rnd(k, k.lengthscale)
                cands.append((k, lambda a, b_, k=k: torch.exp(-0.5 * sq(a, b_, k.lengthscale.squeeze(-2) if ard else k.lengthscale.squeeze(-1)))))
            if fam == "matern":
                nu = float(params[0])
                k = K.MaternKernel(nu=nu, **kw).double()
                k.lengthscale = rnd(k, k.lengthscale)

                def f(a, b_, k=k, nu=nu):
                    r = sq(a, b_, k.lengthscale.squeeze(-2) if ard else k.lengthscale.squeeze(-1)).clamp_min(0).sqrt()
                    t = math.sqrt(2 * nu) * r
                    p = {0.5: 1.0, 1.5: 1 + t, 2.5: 1 + t + t ** 2 / 3}[nu]
                    return p * torch.exp(-t)
                cands.append((k, f))
            if fam == "rq":
                k = K.RQKernel(**kw).double()
                k.lengthscale = rnd(k, k.lengthscale)
                k.alpha = rnd(k, k.alpha)
                cands.append((k, lambda a, b_, k=k: (1 + sq(a, b_, k.lengthscale.squeeze(-2) if ard else k.lengthscale.squeeze(-1)) / (2 * k.alpha.view(*bs, 1, 1))) ** (-k.alpha.view(*bs, 1, 1))))
            if fam == "periodic":
                k = K.PeriodicKernel(**kw).double()
                k.lengthscale = rnd(k, k.lengthscale)
                k.period_length = rnd(k, k.period_length)

                def f(a, b_, k=k):
                    diff = (a.unsqueeze(-2) - b_.unsqueeze(-3)).abs()
                    return torch.exp(-2 * ((math.pi * diff / k.period_length.unsqueeze(-2)).sin() ** 2 / k.lengthscale.unsqueeze(-2)).sum(-1))
                cands.append((k, f))
            if fam == "cosine" and not ard:
                k = K.CosineKernel(batch_shape=torch.Size(bs)).double()
                k.period_length = rnd(k, k.period_length)
                cands.append((k, lambda a, b_, k=k: torch.cos(math.pi * sq(a, b_).clamp_min(0).sqrt() / k.period_length)))
            if fam == "linear" and not ard:
                k = K.LinearKernel(batch_shape=torch.Size(bs)).double()
                k.variance = rnd(k, k.variance)
                cands.append((k, lambda a, b_, k=k: k.variance * (a @ b_.transpose(-1, -2))))
            if fam == "polynomial" and not ard:
                pw = params[3] if len(params) > 3 else 2
                k = K.PolynomialKernel(power=pw, batch_shape=torch.Size(bs)).double()
                k.offset = rnd(k, k.offset)
                cands.append((k, lambda a, b_, k=k, pw=pw: (a @ b_.transpose(-1, -2) + k.offset.view(*bs, 1, 1)) ** pw))
            if fam == "constant" and not ard:
                k = K.ConstantKernel(batch_shape=torch.Size(bs)).double()
                k.constant = rnd(k, k.constant)
                cands.append((k, lambda a, b_, k=k: k.constant.view(*bs, 1, 1).expand(*bs, a.size(-2), b_.size(-2))))
            if fam == "scale" and not ard:
                k = K.ScaleKernel(K.RBFKernel(batch_shape=torch.Size(bs)), batch_shape=torch.Size(bs)).double()
                k.outputscale = rnd(k, k.outputscale)
                cands.append((k, lambda a, b_, k=k: k.outputscale.view(*bs, 1, 1) * k.base_kernel(a, b_).to_dense()))
            if fam == "sum_product" and not ard and not bs:
                k1, k2, k3 = K.RBFKernel().double(), K.MaternKernel(nu=1.5).double(), K.LinearKernel().double()
                for kk, f in ((k1 + k2, lambda a, b_: k1(a, b_).to_dense() + k2(a, b_).to_dense()), (k1 * k2, lambda a, b_: k1(a, b_).to_dense() * k2(a, b_).to_dense()),
                              (k1 + k2 + k3, lambda a, b_: k1(a, b_).to_dense() + k2(a, b_).to_dense() + k3(a, b_).to_dense()),
                              (k3 * (k1 + k2), lambda a, b_: k3(a, b_).to_dense() * (k1(a, b_).to_dense() + k2(a, b_).to_dense())),
                              (k1 + (k2 + k3), lambda a, b_: k1(a, b_).to_dense() + k2(a, b_).to_dense() + k3(a, b_).to_dense()),
                              (k1 * (k2 * k3), lambda a, b_: k1(a, b_).to_dense() * k2(a, b_).to_dense() * k3(a, b_).to_dense()),
                              ((k1 + k2) * k3, lambda a, b_: k3(a, b_).to_dense() * (k1(a, b_).to_dense() + k2(a, b_).to_dense())),
                              ((k1 * k2) + k3, lambda a, b_: k3(a, b_).to_dense() + (k1(a, b_).to_dense() * k2(a, b_).to_dense())),
                              (k1 * k2 * k3, lambda a, b_: k1(a, b_).to_dense() * k2(a, b_).to_dense() * k3(a, b_).to_dense())):
                    cands.append((kk, f))
            for k, f in cands:
                for x2 in x2s:
                    try:
                        with torch.no_grad():
                            got = k(x1, x2).to_dense()
                            want = f(x1, x2)
                            ok = got.shape == want.shape and torch.allclose(got, want, atol=1e-9)
                            if x2 is x1:
                                gd = k(x1, x1, diag=True)
                                ok = ok and torch.allclose(gd, torch.diagonal(want, dim1=-1, dim2=-2), atol=1e-9)
                    except Exception as e:
                        from engine.runner import classify_replay_exception
                        r = classify_replay_exception(e)
                        ok = not r.get("violates")
                        detail.append(r["detail"][:300])
                    if not ok:
                        bad = True
                        detail.append(f"{type(k).__name__} batch={bs} ard={ard} same={x2 is x1}: differs from the documented formula")
    return {"violates": bad, "detail": "; ".join(detail) or "real kernels agree with the documented formulas",
            "entry": {"module": "contracts.C05_kernels", "function": "replay_kernel", "args": [model, list(params), clause, info]}}


def replay_pp(model, params, clause, info):
    import math
    import torch
    from gpytorch.kernels import PiecewisePolynomialKernel
    (q,) = params
    torch.manual_seed(0)
    bad, detail = False, []
    for D in (1, 2, 3):
        k = PiecewisePolynomialKernel(q=q).double()
        with torch.no_grad():
            k.lengthscale = torch.tensor(1.7, dtype=torch.double)
        x1, x2 = torch.rand(5, D, dtype=torch.double), torch.rand(4, D, dtype=torch.double)
        r = (torch.cdist(x1, x2) / 1.7)
        j = math.floor(D / 2) + q + 1
        poly = {0: 1 + 0 * r, 1: (j + 1) * r + 1, 2: 1 + (j + 2) * r + (j ** 2 + 4 * j + 3) / 3 * r ** 2,
                3: 1 + (j + 3) * r + (6 * j ** 2 + 36 * j + 45) / 15 * r ** 2 + (j ** 3 + 9 * j ** 2 + 23 * j + 15) / 15 * r ** 3}[q]
        want = (1 - r).clamp_min(0) ** (j + q) * poly
        with torch.no_grad():
            got = k(x1, x2).to_dense()
        ok = torch.allclose(got, want, atol=1e-10)
        detail.append(f"D={D} q={q}: max diff {(got - want).abs().max().item():.3e}")
        bad |= not ok
    return {"violates": bad, "detail": "; ".join(detail),
            "entry": {"module": "contracts.C05_kernels", "function": "replay_pp", "args": [model, list(params), clause, info]}}


@case("C05", clause="polynomial_grad", expand=lambda ix: [(d, p) for d in (1, 2) for p in (2, 3)], replay=lambda *a: replay_polygrad(*a), timeout=600,
      functions=[f"{KM}.polynomial_kernel_grad.PolynomialKernelGrad.forward"])
def polynomial_grad(c, dval, power):
    """k = (x1^T x2 + c)^p with its first derivatives, in the interleaved layout (row i*(d+1) is the value at x1_i, row i*(d+1)+1+a the derivative w.r.t. x1_i[a]):
        [i*(d+1), j*(d+1)]           = b^p                                     b = x1_i . x2_j + c
        [i*(d+1), j*(d+1)+1+a]       = p b^(p-1) x1_i[a]                       (d/d x2_j[a])
        [i*(d+1)+1+a, j*(d+1)]       = p b^(p-1) x2_j[a]                       (d/d x1_i[a])
        [i*(d+1)+1+a, j*(d+1)+1+e]   = p (p-1) b^(p-2) x2_j[a] x1_i[e] + p b^(p-1) [a == e]
    for symbolic n1, n2 and concrete input dimension d (the code loops over d)"""
    it, ctx = c.it, c.ctx
    n1, n2 = c.size("n1"), c.size("n2")
    c.assume(z3.And(n1.t >= 1, n2.t >= 1))
    d = z3.IntVal(dval)
    x1, x2 = sym_tensor("x1", [n1.t, d]), sym_tensor("x2", [n2.t, d])
    off = pos_tensor(c, "offset", [z3.IntVal(1)])
    o = kernel_obj(c, f"{KM}.polynomial_kernel_grad.PolynomialKernelGrad", [], {"offset": off}, power=VNum(power))
    res = run_forward(c, o, x1, x2, False)
    okr = len(res.dims) == 2
    c.prove("polynomial_grad.shape", z3.And(res.dims[0].size == n1.t * (dval + 1), res.dims[1].size == n2.t * (dval + 1)) if okr else z3.BoolVal(False))
    if not okr:
        return
    i, j = ivar("i"), ivar("j")
    c.assume(z3.And(i >= 0, i < n1.t, j >= 0, j < n2.t))
    base = sum((x1.at([i, z3.IntVal(k)]) * x2.at([j, z3.IntVal(k)]) for k in range(dval)), z3.RealVal(0)) + off.at([z3.IntVal(0)])

    def pw(e):
        r = z3.RealVal(1)
        for _ in range(e):
            r = r * base
        return r

    S = dval + 1
    c.prove("polynomial_grad.value_block", res.at_dims([i * S, j * S]) == pw(power))
    for a in range(dval):
        c.prove(f"polynomial_grad.d_dx2[{a}]", res.at_dims([i * S, j * S + 1 + a]) == power * pw(power - 1) * x1.at([i, z3.IntVal(a)]))
        c.prove(f"polynomial_grad.d_dx1[{a}]", res.at_dims([i * S + 1 + a, j * S]) == power * pw(power - 1) * x2.at([j, z3.IntVal(a)]))
        for e in range(dval):
            c.prove(f"polynomial_grad.d2_dx1[{a}]_dx2[{e}]", res.at_dims([i * S + 1 + a, j * S + 1 + e])
                    == power * (power - 1) * pw(power - 2) * x2.at([j, z3.IntVal(a)]) * x1.at([i, z3.IntVal(e)]) + (power * pw(power - 1) if a == e else 0))


def replay_polygrad(model, params, clause, info):
    """real PolynomialKernelGrad against autograd of (x1 . x2 + c)^p (value, both gradients, mixed second derivatives) in the interleaved layout"""
    import torch
    import gpytorch
    dval, power = params
    torch.manual_seed(2)
    n1, n2 = 3, 2
    k = gpytorch.kernels.PolynomialKernelGrad(power=power).double()
    k.offset = 0.7
    x1 = torch.randn(n1, dval, dtype=torch.double)
    x2 = torch.randn(n2, dval, dtype=torch.double)
    with torch.no_grad():
        K = k(x1, x2).to_dense()
    S = dval + 1
    want = torch.zeros(n1 * S, n2 * S, dtype=torch.double)
    c0 = float(k.offset)
    for i in range(n1):
        for j in range(n2):
            a = x1[i].clone().requires_grad_(True)
            b = x2[j].clone().requires_grad_(True)
            f = (a @ b + c0) ** power
            ga, gb = torch.autograd.grad(f, (a, b), create_graph=True)
            want[i * S, j * S] = f.detach()
            want[i * S, j * S + 1:j * S + S] = gb.detach()
            want[i * S + 1:i * S + S, j * S] = ga.detach()
            for q in range(dval):
                (h,) = torch.autograd.grad(ga[q], b, retain_graph=True)
                want[i * S + 1 + q, j * S + 1:j * S + S] = h
    err = (K - want).abs().max().item()
    bad = K.shape != want.shape or err > 1e-9
    return {"violates": bool(bad), "detail": f"PolynomialKernelGrad(power={power}) in d={dval}: max |K - autograd reference| = {err:.3e}",
            "entry": {"module": "contracts.C05_kernels", "function": "replay_polygrad", "args": [model, list(params), clause, info]}}


@case("C05", clause="rbf_grad", expand=lambda ix: [(d, ard) for d in (1, 2) for ard in (False, True) if not (ard and d == 1)], replay=lambda *a: replay_rbfgrad(*a), timeout=900,
      functions=[f"{KM}.rbf_kernel_grad.RBFKernelGrad.forward"])
def rbf_grad(c, dval, ard):
    """k = exp(-1/2 sum_k ((x1_k - x2_k)/l_k)^2) with its first derivatives, interleaved layout, x1 != x2 (no symmetrisation), symbolic n1, n2, concrete d;
    with u_a = (x1_i[a] - x2_j[a]) / l_a^2:
        value                       k
        d/d x2_j[a]                 u_a k
        d/d x1_i[a]                -u_a k
        d2/d x1_i[a] d x2_j[e]      ([a == e] / l_a^2 - u_a u_e) k"""
    it, ctx = c.it, c.ctx
    n1, n2 = c.size("n1"), c.size("n2")
    c.assume(z3.And(n1.t >= 1, n2.t >= 1))
    c.assume(n1.t != n2.t, "RBFKernelGrad is verified for x1 != x2 with different numbers of points (the branch that symmetrises K for x1 == x2 is covered by the bounded tier)")
    d = z3.IntVal(dval)
    x1, x2 = sym_tensor("x1", [n1.t, d]), sym_tensor("x2", [n2.t, d])
    ls, lsf0 = lengthscale(c, [], d, ard)
    lsf = lsf0([])
    o = kernel_obj(c, f"{KM}.rbf_kernel_grad.RBFKernelGrad", [], {"lengthscale": ls}, ard_num_dims=(VNum(d) if ard else NONE))
    DistContract(c, o)
    c.it.optable["hook.torch.equal"] = lambda it_, ctx_, a, k: FALSE
    c.it.optable["hook.torch.eq_all"] = lambda it_, ctx_, a, k: FALSE
    res = run_forward(c, o, x1, x2, False)
    okr = len(res.dims) == 2
    c.prove("rbf_grad.shape", z3.And(res.dims[0].size == n1.t * (dval + 1), res.dims[1].size == n2.t * (dval + 1)) if okr else z3.BoolVal(False))
    if not okr:
        return
    i, j = ivar("i"), ivar("j")
    c.assume(z3.And(i >= 0, i < n1.t, j >= 0, j < n2.t))
    div = lambda a_, b_: dom_real.rdiv(ctx, a_, b_)  # noqa: E731
    q = lambda k_: div(x1.at([i, z3.IntVal(k_)]) - x2.at([j, z3.IntVal(k_)]), lsf(z3.IntVal(k_)))  # noqa: E731
    r2 = sum((q(k_) * q(k_) for k_ in range(dval)), z3.RealVal(0))
    kv = dom_real.apply(ctx, "exp", -r2 / 2)
    u = lambda a_: div(q(a_), lsf(z3.IntVal(a_)))  # noqa: E731
    S = dval + 1
    rd = lambda r_, c_: E.resolve_ites(ctx, res.at_dims([r_, c_]))  # noqa: E731  (the entry read at a fixed block position: index conditions of the block assembly are decided by the path condition)
    c.prove_identity("rbf_grad.value_block", rd(i * S, j * S), kv, cas_first=True)
    for a in range(dval):
        c.prove_identity(f"rbf_grad.d_dx2[{a}]", rd(i * S, j * S + 1 + a), u(a) * kv, cas_first=True)
        c.prove_identity(f"rbf_grad.d_dx1[{a}]", rd(i * S + 1 + a, j * S), -u(a) * kv, cas_first=True)
        for e in range(dval):
            delta = div(z3.RealVal(1), lsf(z3.IntVal(a)) * lsf(z3.IntVal(a))) if a == e else z3.RealVal(0)
            c.prove_identity(f"rbf_grad.d2_dx1[{a}]_dx2[{e}]", rd(i * S + 1 + a, j * S + 1 + e), (delta - u(a) * u(e)) * kv, cas_first=True)


def replay_rbfgrad(model, params, clause, info):
    """real RBFKernelGrad against autograd of the RBF kernel (value, both gradients, mixed second derivatives), interleaved layout, x1 != x2"""
    import torch
    import gpytorch
    dval, ard = params
    torch.manual_seed(4)
    n1, n2 = 3, 2
    k = gpytorch.kernels.RBFKernelGrad(ard_num_dims=(dval if ard else None)).double()
    ls = torch.linspace(0.6, 1.3, dval if ard else 1, dtype=torch.double).reshape(1, -1)
    k.lengthscale = ls
    x1 = torch.randn(n1, dval, dtype=torch.double)
    x2 = torch.randn(n2, dval, dtype=torch.double)
    with torch.no_grad():
        K = k(x1, x2).to_dense()
    S = dval + 1
    want = torch.zeros(n1 * S, n2 * S, dtype=torch.double)
    for i in range(n1):
        for j in range(n2):
            a = x1[i].clone().requires_grad_(True)
            b = x2[j].clone().requires_grad_(True)
            f = torch.exp(-0.5 * (((a - b) / ls.reshape(-1)) ** 2).sum())
            ga, gb = torch.autograd.grad(f, (a, b), create_graph=True)
            want[i * S, j * S] = f.detach()
            want[i * S, j * S + 1:j * S + S] = gb.detach()
            want[i * S + 1:i * S + S, j * S] = ga.detach()
            for q in range(dval):
                (h,) = torch.autograd.grad(ga[q], b, retain_graph=True)
                want[i * S + 1 + q, j * S + 1:j * S + S] = h
    err = (K - want).abs().max().item()
    bad = K.shape != want.shape or err > 1e-9
    return {"violates": bool(bad), "detail": f"RBFKernelGrad(ard={ard}) in d={dval}: max |K - autograd reference| = {err:.3e}",
            "entry": {"module": "contracts.C05_kernels", "function": "replay_rbfgrad", "args": [model, list(params), clause, info]}}


@case("C05", clause="matern52_grad", expand=lambda ix: [(d, ard) for d in (1, 2) for ard in (False, True) if not (ard and d == 1)], replay=lambda *a: replay_matern52grad(*a), timeout=900,
      functions=[f"{KM}.matern52_kernel_grad.Matern52KernelGrad.forward"])
def matern52_grad(c, dval, ard):
    """Matern-5/2 k = (1 + s r + 5/3 r^2) e^(-s r), s = sqrt 5, r = |(x1 - x2) / l| (covar_dist's contract), with its first derivatives, interleaved layout, x1 != x2;
    with u_a = (x1_i[a] - x2_j[a]) / l_a^2 and g = 5/3 (1 + s r) e^(-s r):
        d/d x2_j[a] = u_a g,   d/d x1_i[a] = -u_a g,   d2/d x1_i[a] d x2_j[e] = -5/3 e^(-s r) (5 u_a u_e - [a == e] (1 + s r) / l_a^2)
    (that these closed forms ARE the derivatives of k is the calculus lemma `matern52_closed_forms_are_derivatives`, checked by the CAS)"""
    it, ctx = c.it, c.ctx
    n1, n2 = c.size("n1"), c.size("n2")
    c.assume(z3.And(n1.t >= 1, n2.t >= 1))
    c.assume(n1.t != n2.t, "Matern52KernelGrad is verified for x1 != x2 with different numbers of points (the branch that symmetrises K for x1 == x2 is covered by the bounded tier)")
    d = z3.IntVal(dval)
    x1, x2 = sym_tensor("x1", [n1.t, d]), sym_tensor("x2", [n2.t, d])
    ls, lsf0 = lengthscale(c, [], d, ard)
    lsf = lsf0([])
    o = kernel_obj(c, f"{KM}.matern52_kernel_grad.Matern52KernelGrad", [], {"lengthscale": ls}, ard_num_dims=(VNum(d) if ard else NONE), nu=VNum(2.5))
    dc = DistContract(c, o)
    c.it.optable["hook.torch.equal"] = lambda it_, ctx_, a, k: FALSE
    res = run_forward(c, o, x1, x2, False)
    okr = len(res.dims) == 2
    c.prove("matern52_grad.shape", z3.And(res.dims[0].size == n1.t * (dval + 1), res.dims[1].size == n2.t * (dval + 1)) if okr else z3.BoolVal(False))
    if not okr:
        return
    c.prove("matern52_grad.one_plain_distance_of_the_scaled_inputs", z3.BoolVal(len(dc.calls) == 1 and not dc.calls[0][2] and not dc.calls[0][3]))
    if len(dc.calls) != 1:
        return
    i, j = ivar("i"), ivar("j")
    c.assume(z3.And(i >= 0, i < n1.t, j >= 0, j < n2.t))
    div = lambda a_, b_: dom_real.rdiv(ctx, a_, b_)  # noqa: E731
    u = lambda a_: div(div(x1.at([i, z3.IntVal(a_)]) - x2.at([j, z3.IntVal(a_)]), lsf(z3.IntVal(a_))), lsf(z3.IntVal(a_)))  # noqa: E731
    S = dval + 1
    rd = lambda r_, c_: E.resolve_ites(ctx, res.at_dims([r_, c_]))  # noqa: E731
    # r: the callee's value at (i, j), read back from the value block: k = (1 + s r + 5/3 r^2) e^(-s r) must hold for the SAME r that the derivative blocks use
    u_, v_ = dc.calls[0][0], dc.calls[0][1]
    rij = dc.value_at(i, j) if hasattr(dc, "value_at") else None
    if rij is None:
        c.fail("matern52_grad.distance_contract_exposes_value", "DistContract has no value_at")
        return
    s5 = dom_real.apply(ctx, "sqrt", z3.RealVal(5))
    e_ = dom_real.apply(ctx, "exp", -(s5 * rij))
    g = z3.RealVal("5/3") * (1 + s5 * rij) * e_
    c.prove_identity("matern52_grad.value_block", rd(i * S, j * S), (1 + s5 * rij + z3.RealVal("5/3") * rij * rij) * e_, cas_first=True)
    for a in range(dval):
        c.prove_identity(f"matern52_grad.d_dx2[{a}]", rd(i * S, j * S + 1 + a), u(a) * g, cas_first=True)
        c.prove_identity(f"matern52_grad.d_dx1[{a}]", rd(i * S + 1 + a, j * S), -u(a) * g, cas_first=True)
        for e in range(dval):
            delta = div(1 + s5 * rij, lsf(z3.IntVal(a)) * lsf(z3.IntVal(a))) if a == e else z3.RealVal(0)
            c.prove_identity(f"matern52_grad.d2_dx1[{a}]_dx2[{e}]", rd(i * S + 1 + a, j * S + 1 + e), -z3.RealVal("5/3") * e_ * (5 * u(a) * u(e) - delta), cas_first=True)


def replay_matern52grad(model, params, clause, info):
    """real Matern52KernelGrad against autograd of the Matern-5/2 kernel (value, both gradients, mixed second derivatives), interleaved layout, x1 != x2"""
    import math
    import torch
    import gpytorch
    dval, ard = params
    torch.manual_seed(6)
    n1, n2 = 3, 2
    k = gpytorch.kernels.Matern52KernelGrad(ard_num_dims=(dval if ard else None)).double()
    ls = torch.linspace(0.6, 1.3, dval if ard else 1, dtype=torch.double).reshape(1, -1)
    k.lengthscale = ls
    x1 = torch.randn(n1, dval, dtype=torch.double)
    x2 = torch.randn(n2, dval, dtype=torch.double)
    with torch.no_grad():
        K = k(x1, x2).to_dense()
    S = dval + 1
    want = torch.zeros(n1 * S, n2 * S, dtype=torch.double)
    for i in range(n1):
        for j in range(n2):
            a = x1[i].clone().requires_grad_(True)
            b = x2[j].clone().requires_grad_(True)
            r = ((((a - b) / ls.reshape(-1)) ** 2).sum()).sqrt()
            f = (1 + math.sqrt(5) * r + 5.0 / 3.0 * r ** 2) * torch.exp(-math.sqrt(5) * r)
            ga, gb = torch.autograd.grad(f, (a, b), create_graph=True)
            want[i * S, j * S] = f.detach()
            want[i * S, j * S + 1:j * S + S] = gb.detach()
            want[i * S + 1:i * S + S, j * S] = ga.detach()
            for q in range(dval):
                (h,) = torch.autograd.grad(ga[q], b, retain_graph=True)
                want[i * S + 1 + q, j * S + 1:j * S + S] = h
    err = (K - want).abs().max().item()
    bad = K.shape != want.shape or err > 1e-8
    return {"violates": bool(bad), "detail": f"Matern52KernelGrad(ard={ard}) in d={dval}: max |K - autograd reference| = {err:.3e}",
            "entry": {"module": "contracts.C05_kernels", "function": "replay_matern52grad", "args": [model, list(params), clause, info]}}


def _derivative_lemma(kind):
    """sympy: the closed forms stated in rbf_grad / matern52_grad are the partial derivatives of the kernel (d = 2, ARD lengthscales l1, l2 > 0, x1 != x2)"""
    import sympy as sp
    a1, a2, b1, b2 = sp.symbols("a1 a2 b1 b2", real=True)
    l1, l2 = sp.symbols("l1 l2", positive=True)
    A, B, Ls = (a1, a2), (b1, b2), (l1, l2)
    r2 = sum(((A[k] - B[k]) / Ls[k]) ** 2 for k in range(2))
    u = [(A[k] - B[k]) / Ls[k] ** 2 for k in range(2)]
    if kind == "rbf":
        kf = sp.exp(-r2 / 2)
        d_b = [u[k] * kf for k in range(2)]
        d_a = [-u[k] * kf for k in range(2)]
        h = [[((1 / Ls[p] ** 2 if p == q else 0) - u[p] * u[q]) * kf for q in range(2)] for p in range(2)]
    else:
        r = sp.sqrt(r2)
        s5 = sp.sqrt(5)
        e = sp.exp(-s5 * r)
        kf = (1 + s5 * r + sp.Rational(5, 3) * r ** 2) * e
        g = sp.Rational(5, 3) * (1 + s5 * r) * e
        d_b = [u[k] * g for k in range(2)]
        d_a = [-u[k] * g for k in range(2)]
        h = [[-sp.Rational(5, 3) * e * (5 * u[p] * u[q] - ((1 + s5 * r) / Ls[p] ** 2 if p == q else 0)) for q in range(2)] for p in range(2)]
    bad = []
    for k in range(2):
        if sp.simplify(sp.diff(kf, B[k]) - d_b[k]) != 0:
            bad.append(f"d/dx2[{k}]")
        if sp.simplify(sp.diff(kf, A[k]) - d_a[k]) != 0:
            bad.append(f"d/dx1[{k}]")
        for q in range(2):
            if sp.simplify(sp.diff(kf, A[k], B[q]) - h[k][q]) != 0:
                bad.append(f"d2/dx1[{k}]dx2[{q}]")
    return bad


@case("C05", clause="derivative_closed_forms", name="closed_forms_are_derivatives", expand=lambda ix: [("rbf",), ("matern52",)], replay=None, timeout=900,
      functions=[f"{KM}.rbf_kernel_grad.RBFKernelGrad.forward", f"{KM}.matern52_kernel_grad.Matern52KernelGrad.forward"])
def closed_forms_are_derivatives(c, kind):
    """calculus lemma over the contracts rbf_grad / matern52_grad (sympy CAS, d = 2, ARD): the closed forms those contracts pin the code to are the first partial
    derivatives and the mixed second derivatives of the kernel -- so the blocks of the derivative kernels are derivatives of the value block"""
    c.ctx.assumptions.add("sympy's symbolic differentiation and simplification are trusted for the derivative lemma (d = 2; the autograd replays cross-check numerically)")
    bad = _derivative_lemma(kind)
    c.prove(f"lemma.{kind}.closed_forms_equal_symbolic_derivatives", z3.BoolVal(not bad), mismatches=bad)


@case("C05", clause="rbf_gradgrad", expand=lambda ix: [(1, False), (2, False), (2, True)], replay=lambda *a: replay_rbfgradgrad(*a), timeout=1500,
      functions=[f"{KM}.rbf_kernel_gradgrad.RBFKernelGradGrad.forward"])
def rbf_gradgrad(c, dval, ard):
    """RBF kernel with its first derivatives and diagonal second derivatives, interleaved layout (row i*(2d+1) + p: p = 0 the value, p = 1 + a the derivative
    d/dx_a, p = 1 + d + a the second derivative d2/dx_a^2), x1 != x2, symbolic n1, n2, concrete d.  The specification IS the symbolic derivative:
        entry[(i, p), (j, q)] = D_p^{x1_i} D_q^{x2_j} exp(-1/2 sum_k ((x1_i[k] - x2_j[k]) / l_k)^2)
    computed by the engine's differentiator (engine/diff.py) from the kernel expression and compared with the code's entry by the CAS"""
    from engine import diff as D_
    it, ctx = c.it, c.ctx
    n1, n2 = c.size("n1"), c.size("n2")
    c.assume(z3.And(n1.t >= 1, n2.t >= 1))
    c.assume(n1.t != n2.t, "RBFKernelGradGrad is verified for x1 != x2 with different numbers of points (the branch that symmetrises K for x1 == x2 is covered by the bounded tier)")
    d = z3.IntVal(dval)
    x1, x2 = sym_tensor("x1", [n1.t, d]), sym_tensor("x2", [n2.t, d])
    ls, lsf0 = lengthscale(c, [], d, ard)
    lsf = lsf0([])
    o = kernel_obj(c, f"{KM}.rbf_kernel_gradgrad.RBFKernelGradGrad", [], {"lengthscale": ls}, ard_num_dims=(VNum(d) if ard else NONE))
    DistContract(c, o)
    c.it.optable["hook.torch.equal"] = lambda it_, ctx_, a, k: FALSE
    res = run_forward(c, o, x1, x2, False)
    S = 2 * dval + 1
    okr = len(res.dims) == 2
    c.prove("rbf_gradgrad.shape", z3.And(res.dims[0].size == n1.t * S, res.dims[1].size == n2.t * S) if okr else z3.BoolVal(False))
    if not okr:
        return
    i, j = ivar("i"), ivar("j")
    c.assume(z3.And(i >= 0, i < n1.t, j >= 0, j < n2.t))
    A = [x1.at([i, z3.IntVal(k_)]) for k_ in range(dval)]
    B = [x2.at([j, z3.IntVal(k_)]) for k_ in range(dval)]
    Ls = [lsf(z3.IntVal(k_)) for k_ in range(dval)]
    r2 = sum((((A[k_] - B[k_]) * dom_real.recip(ctx, Ls[k_])) * ((A[k_] - B[k_]) * dom_real.recip(ctx, Ls[k_])) for k_ in range(dval)), z3.RealVal(0))
    kv = dom_real.apply(ctx, "exp", -r2 / 2)

    def deriv(t, vars_, p):
        if p == 0:
            return t
        if p <= dval:
            return D_.d(t, vars_[p - 1])
        return D_.d(D_.d(t, vars_[p - 1 - dval]), vars_[p - 1 - dval])

    rd = lambda r_, c_: E.resolve_ites(ctx, res.at_dims([r_, c_]))  # noqa: E731
    for p in range(S):
        for q in range(S):
            want = deriv(deriv(kv, A, p), B, q)
            c.prove_identity(f"rbf_gradgrad.D{p}_x1.D{q}_x2", rd(i * S + p, j * S + q), want, cas_first=True)


def replay_rbfgradgrad(model, params, clause, info):
    """real RBFKernelGradGrad against autograd (value, first derivatives, diagonal second derivatives in both arguments), interleaved layout, x1 != x2"""
    import torch
    import gpytorch
    dval, ard = params
    torch.manual_seed(8)
    n1, n2 = 3, 2
    k = gpytorch.kernels.RBFKernelGradGrad(ard_num_dims=(dval if ard else None)).double()
    ls = torch.linspace(0.7, 1.2, dval if ard else 1, dtype=torch.double).reshape(1, -1)
    k.lengthscale = ls
    x1 = torch.randn(n1, dval, dtype=torch.double)
    x2 = torch.randn(n2, dval, dtype=torch.double)
    with torch.no_grad():
        K = k(x1, x2).to_dense()
    S = 2 * dval + 1
    want = torch.zeros(n1 * S, n2 * S, dtype=torch.double)

    def ops(f, v):
        """[f, df/dv_a ..., d2f/dv_a^2 ...] as a list of scalar graph nodes"""
        (g,) = torch.autograd.grad(f, v, create_graph=True)
        out = [f] + [g[a] for a in range(dval)]
        for a in range(dval):
            (h,) = torch.autograd.grad(g[a], v, create_graph=True)
            out.append(h[a])
        return out

    for i in range(n1):
        for j in range(n2):
            a = x1[i].clone().requires_grad_(True)
            b = x2[j].clone().requires_grad_(True)
            f = torch.exp(-0.5 * (((a - b) / ls.reshape(-1)) ** 2).sum())
            for p, fp in enumerate(ops(f, a)):
                for q, fpq in enumerate(ops(fp, b)):
                    want[i * S + p, j * S + q] = fpq.detach()
    err = (K - want).abs().max().item()
    bad = K.shape != want.shape or err > 1e-8
    return {"violates": bool(bad), "detail": f"RBFKernelGradGrad(ard={ard}) in d={dval}: max |K - autograd reference| = {err:.3e}",
            "entry": {"module": "contracts.C05_kernels", "function": "replay_rbfgradgrad", "args": [model, list(params), clause, info]}}
