"""C08 -- batch mode equals independent replicas (no cross-talk between batch elements); proof tier.

Element b of a batched output is stated as a function of the b-th slices of the parameters and of the data only -- the same formula a
non-batched object evaluates (the br = 0 cases of the same contracts) -- so "batched object == that many independent copies" is the
conjunction of the batched (b symbolic) and non-batched obligations.  The harness functions are those of C05 (kernels), C12 (noise /
likelihoods), C02 (exact MLL, SumMarginalLogLikelihood), C10 (log_prob, KL), run here with a symbolic batch extent, plus contracts on the
mean modules and on IndependentModelList.
"""
from __future__ import annotations

import z3

from engine import dom_elem as E
from engine.dom_elem import ivar, mk_sum, sym_tensor
from engine.runner import case
from engine.values import FALSE, NONE, TRUE, VDict, VList, VNum, VObj, VTuple
from contracts import C02_exact_mll as c02
from contracts import C05_kernels as c05
from contracts import C10_mvn as c10
from contracts import C12_gaussian_likelihoods as c12
from contracts.stubs import Stub

KM = "gpytorch.kernels"


@case("C08", clause="kernel_replicas", replay=lambda *a: c05.replay_kernel(*a),
      expand=lambda ix: [(k, ard, same, diag) for k in ("rbf", "matern0.5", "matern1.5", "matern2.5", "rq", "periodic") for ard in (False, True) for same in (False, True) for diag in (False, True)
                         if same or not diag],
      functions=[f"{KM}.rbf_kernel.RBFKernel.forward", f"{KM}.matern_kernel.MaternKernel.forward", f"{KM}.rq_kernel.RQKernel.forward", f"{KM}.periodic_kernel.PeriodicKernel.forward",
                 f"{KM}.kernel.Kernel.covar_dist"])
def kernel_replicas(c, kind, ard, same, diag):
    """K[b, i, j] = k(x1[b, i, :], x2[b, j, :]; theta[b]) with a symbolic batch extent (the C05 contract at batch rank 1)"""
    if kind.startswith("matern"):
        return c05.matern(c, kind[len("matern"):], 1, ard, same, diag)
    return getattr(c05, kind)(c, 1, ard, same, diag)


@case("C08", clause="kernel_replicas", name="kernel_replicas_simple", replay=lambda *a: c05.replay_kernel(*a),
      expand=lambda ix: [(k, diag) for k in ("cosine", "linear", "polynomial", "constant", "scale") for diag in (False, True)],
      functions=[f"{KM}.cosine_kernel.CosineKernel.forward", f"{KM}.linear_kernel.LinearKernel.forward", f"{KM}.polynomial_kernel.PolynomialKernel.forward",
                 f"{KM}.constant_kernel.ConstantKernel.forward", f"{KM}.scale_kernel.ScaleKernel.forward"])
def kernel_replicas_simple(c, kind, diag):
    if kind == "cosine":
        return c05.cosine(c, 1, diag)
    if kind == "linear":
        return c05.linear(c, 1, True, diag)
    if kind == "polynomial":
        return c05.polynomial(c, 1, True, diag, 2)
    if kind == "constant":
        return c05.constant(c, 1, diag)
    return c05.scale(c, 1, diag)


@case("C08", clause="mean_replicas", expand=lambda ix: [(m, pb, xb) for m in ("Constant", "Zero", "Linear") for pb in (0, 1) for xb in (0, 1)], replay=lambda *a: replay_means(*a),
      functions=["gpytorch.means.constant_mean.ConstantMean.forward", "gpytorch.means.zero_mean.ZeroMean.forward", "gpytorch.means.linear_mean.LinearMean.forward"])
def mean_replicas(c, kind, pb, xb):
    """m[b, i] = c[b] (Constant), 0 (Zero), x[b, i, :] . w[b, :] + bias[b] (Linear) for every broadcast pattern of parameter / data batch"""
    it, ctx = c.it, c.ctx
    B, n, d = c.size("B"), c.size("n"), c.size("d")
    pbs, xbs = ([B.t] if pb else []), ([B.t] if xb else [])
    x = sym_tensor("x", xbs + [n.t, d.t])
    ci = it.index.get_class({"Constant": "gpytorch.means.constant_mean.ConstantMean", "Zero": "gpytorch.means.zero_mean.ZeroMean", "Linear": "gpytorch.means.linear_mean.LinearMean"}[kind])
    o = VObj(ci, label=kind + "Mean")
    o.fields.update({"_parameters": VDict(), "_buffers": VDict(), "_modules": VDict(), "_priors": VDict(), "_constraints": VDict(), "_added_loss_terms": VDict(), "training": TRUE,
                     "batch_shape": VTuple([VNum(e) for e in pbs], is_size=True)})
    const = sym_tensor("constant", pbs)
    w = sym_tensor("weights", pbs + [d.t, z3.IntVal(1)])
    bias = sym_tensor("bias", pbs + [z3.IntVal(1)])
    props = {"constant": const, "weights": w, "bias": bias}
    it.attr_hooks.append(lambda it_, ctx_, obj, name: props[name] if (obj is o and name in props) else None)
    res = it.call(ctx, c.getattr(o, "forward"), [x], {})
    ob = [B.t] if (pb or xb) else []
    c.prove("mean.shape", z3.And(z3.BoolVal(len(res.dims) == len(ob) + 1), *[dd.size == e for dd, e in zip(res.dims, ob + [n.t])]) if len(res.dims) == len(ob) + 1 else z3.BoolVal(False))
    if len(res.dims) != len(ob) + 1:
        return
    b = [ivar("b") for _ in ob]
    i = ivar("i")
    for v, e in zip(b + [i], ob + [n.t]):
        c.assume(z3.And(v >= 0, v < e))
    pbi, xbi = (b if pb else []), (b if xb else [])
    if kind == "Constant":
        want = const.at(pbi)
    elif kind == "Zero":
        want = z3.RealVal(0)
    else:
        want = mk_sum(lambda k: x.at(xbi + [i, k]) * w.at(pbi + [k, z3.IntVal(0)]), d.t) + bias.at(pbi + [z3.IntVal(0)])
    c.prove("mean.value_of_batch_element", res.at(b + [i]) == want)


@case("C08", clause="likelihood_replicas", expand=lambda ix: [(nb, db) for (nb, db) in c12.batch_patterns() if nb or db], replay=lambda *a: c12.replay_lik(*a),
      functions=["gpytorch.likelihoods.gaussian_likelihood._GaussianLikelihoodBase.marginal", "gpytorch.likelihoods.noise_models._HomoskedasticNoiseBase.forward"])
def likelihood_replicas(c, nb, db):
    """marginal of batch element b adds sigma^2[b] I to the covariance of batch element b (C12 contract on batched patterns)"""
    return c12.marginal_homoskedastic(c, nb, db)


@case("C08", clause="likelihood_replicas", name="likelihood_terms_replicas", expand=lambda ix: [(m,) for m in ("expected_log_prob", "log_marginal", "forward")], replay=lambda *a: c12.replay_lik(*a),
      functions=["gpytorch.likelihoods.gaussian_likelihood._GaussianLikelihoodBase.expected_log_prob", "gpytorch.likelihoods.gaussian_likelihood._GaussianLikelihoodBase.log_marginal",
                 "gpytorch.likelihoods.gaussian_likelihood._GaussianLikelihoodBase.forward"])
def likelihood_terms_replicas(c, meth):
    return {"expected_log_prob": c12.expected_log_prob, "log_marginal": c12.log_marginal, "forward": c12.forward_normal}[meth](c, 1)


@case("C08", clause="mll_replicas", expand=lambda ix: [(P, K) for P in (0, 2) for K in (0, 1)], replay=lambda *a: c02.replay_mll(*a),
      functions=["gpytorch.mlls.exact_marginal_log_likelihood.ExactMarginalLogLikelihood.forward", "gpytorch.mlls.exact_marginal_log_likelihood.ExactMarginalLogLikelihood._add_other_terms"])
def mll_replicas(c, P, K):
    """MLL[b] is assembled from the b-th log density, the b-th added-loss values and the b-th prior terms only (C02 contract at batch rank 1)"""
    return c02.mll_assembly(c, 1, P, K)


@case("C08", clause="mll_replicas", name="sum_mll_is_the_mean_of_members", expand=lambda ix: [(2, False), (3, False), (2, True)], replay=lambda *a: c02.replay_sum(*a),
      functions=["gpytorch.mlls.sum_marginal_log_likelihood.SumMarginalLogLikelihood.forward"])
def sum_mll(c, k, with_params):
    return c02.sum_mll(c, k, with_params)


@case("C08", clause="mll_replicas", name="sum_mll_batched", expand=lambda ix: [(2,), (3,)], replay=lambda *a: replay_sum_batched(*a),
      functions=["gpytorch.mlls.sum_marginal_log_likelihood.SumMarginalLogLikelihood.forward"])
def sum_mll_batched(c, k):
    """members that return one value per batch element: the result has the same batch shape and element b is the mean of the members' b-th values"""
    it, ctx = c.it, c.ctx
    from contracts.C15_objectives import module_obj
    from engine.values import VStr
    B = c.size("B")
    vals = [sym_tensor(f"mll{i}_value", [B.t]) for i in range(k)]
    members = [Stub(f"mll{i}", methods={"__call__": (lambda *a, i=i: vals[i].frozen())}) for i in range(k)]
    o = module_obj(c, "gpytorch.mlls.sum_marginal_log_likelihood.SumMarginalLogLikelihood", "smll")
    o.fields["mlls"] = VList(members)
    res = it.call(ctx, c.getattr(o, "forward"), [VList([VStr(f"out{i}") for i in range(k)]), VList([VStr(f"y{i}") for i in range(k)])], {})
    ok = hasattr(res, "dims") and len(res.dims) == 1
    c.prove("sum_mll.batch_shape_kept", z3.And(z3.BoolVal(ok), res.dims[0].size == B.t) if ok else z3.BoolVal(False))
    if ok:
        b = ivar("b")
        c.assume(z3.And(b >= 0, b < B.t))
        c.prove("sum_mll.element_b_is_the_mean_of_the_members_b_th_values", res.at([b]) == sum((v.at([b]) for v in vals), z3.RealVal(0)) / k)


def replay_sum_batched(model, params, clause, info):
    import torch
    import gpytorch
    (k,) = params
    torch.manual_seed(0)

    class M(gpytorch.models.ExactGP):
        def __init__(self, x, y):
            super().__init__(x, y, gpytorch.likelihoods.GaussianLikelihood(batch_shape=torch.Size([2])))
            self.mean_module = gpytorch.means.ConstantMean(batch_shape=torch.Size([2]))
            self.covar_module = gpytorch.kernels.RBFKernel(batch_shape=torch.Size([2]))

        def forward(self, x):
            return gpytorch.distributions.MultivariateNormal(self.mean_module(x), self.covar_module(x))

    ms = []
    for i in range(k):
        x = torch.randn(2, 4 + i, 1, dtype=torch.double)
        m = M(x, torch.randn(2, 4 + i, dtype=torch.double)).double()
        m.covar_module.lengthscale = torch.tensor([0.5 + i, 1.5], dtype=torch.double).view(2, 1, 1)
        ms.append(m)
    ml = gpytorch.models.IndependentModelList(*ms)
    smll = gpytorch.mlls.SumMarginalLogLikelihood(gpytorch.likelihoods.LikelihoodList(*[m.likelihood for m in ms]), ml)
    with torch.no_grad():
        outs = ml(*ml.train_inputs)
        got = smll(outs, ml.train_targets)
        each = [gpytorch.mlls.ExactMarginalLogLikelihood(m.likelihood, m)(m(*m.train_inputs), m.train_targets) for m in ms]
        want = sum(each) / k
    bad = got.shape != want.shape or not torch.allclose(got, want, atol=1e-10)
    return {"violates": bool(bad), "detail": f"SumMarginalLogLikelihood of batched members: got {got.tolist()} (shape {tuple(got.shape)}), mean of members per batch element {want.tolist()}",
            "entry": {"module": "contracts.C08_batch", "function": "replay_sum_batched", "args": [model, list(params), clause, info]}}


@case("C08", clause="distribution_replicas", expand=lambda ix: [("log_prob", p) for p in range(len(c10.LP_PATTERNS))] + [("kl", 1), ("moments", 1)], replay=lambda *a: replay_dist(*a),
      functions=["gpytorch.distributions.multivariate_normal.MultivariateNormal.log_prob", "gpytorch.distributions.multivariate_normal.kl_mvn_mvn",
                 "gpytorch.distributions.multivariate_normal.MultivariateNormal.variance"])
def distribution_replicas(c, what, p):
    """log_prob / KL / variance of batch element b are those of the b-th (mean, covariance) (C10 contracts on batched patterns)"""
    if what == "log_prob":
        return c10.log_prob(c, p)
    if what == "kl":
        return c10.kl(c, 1)
    return c10.moments(c, 1)


@case("C08", clause="model_list", expand=lambda ix: [(k, meth) for k in (2, 3) for meth in ("forward", "__call__")], replay=lambda *a: replay_model_list(*a),
      functions=["gpytorch.models.model_list.IndependentModelList.forward", "gpytorch.models.model_list.IndependentModelList.__call__"])
def model_list(c, k, meth):
    """IndependentModelList returns exactly [member_i(args_i)] in order: every member is called once, on its own arguments"""
    it, ctx = c.it, c.ctx
    outs = [Stub(f"out{i}") for i in range(k)]
    args = [sym_tensor(f"x{i}", [c.size(f"n{i}").t, c.size("d").t]) for i in range(k)]
    seen = []
    members = []
    for i in range(k):
        m = Stub(f"model{i}", isa=("GP", "Module"))
        m.methods["__call__"] = (lambda i_: lambda *a, **kw: (seen.append((i_, "__call__", list(a), dict(kw))), outs[i_])[1])(i)
        m.methods["forward"] = (lambda i_: lambda *a, **kw: (seen.append((i_, "forward", list(a), dict(kw))), outs[i_])[1])(i)
        members.append(m)
    ci = it.index.get_class("gpytorch.models.model_list.IndependentModelList")
    o = VObj(ci, label="IndependentModelList")
    o.fields.update({"_parameters": VDict(), "_buffers": VDict(), "_modules": VDict({"models": VList(members)}), "_priors": VDict(), "_constraints": VDict(), "_added_loss_terms": VDict(),
                     "training": TRUE})
    res = it.call(ctx, c.getattr(o, meth), list(args), {})
    items = list(res.items) if hasattr(res, "items") else None
    c.prove("model_list.returns_the_members_outputs_in_order", z3.BoolVal(items is not None and len(items) == k and all(a is b for a, b in zip(items, outs))))
    c.prove("model_list.each_member_called_once_on_its_own_arguments",
            z3.BoolVal(sorted(s[0] for s in seen) == list(range(k)) and all(len(s[2]) == 1 and s[2][0] is args[s[0]] and s[1] == meth for s in seen)))


def replay_means(model, params, clause, info):
    import torch
    import gpytorch
    kind, pb, xb = params
    torch.manual_seed(0)
    bs = torch.Size([3]) if pb else torch.Size([])
    m = {"Constant": lambda: gpytorch.means.ConstantMean(batch_shape=bs), "Zero": lambda: gpytorch.means.ZeroMean(batch_shape=bs),
         "Linear": lambda: gpytorch.means.LinearMean(2, batch_shape=bs)}[kind]().double()
    with torch.no_grad():
        for p in m.parameters():
            p.copy_(torch.randn_like(p))
    x = torch.randn(*([3] if xb else []), 4, 2, dtype=torch.double)
    with torch.no_grad():
        out = m(x)
    bad, detail = False, []
    nb = 3 if (pb or xb) else 1
    for b in range(nb):
        xb_ = x[b] if xb else x
        if kind == "Constant":
            want = (m.constant[b] if pb else m.constant).expand(4)
        elif kind == "Zero":
            want = torch.zeros(4, dtype=torch.double)
        else:
            w, bi = (m.weights[b], m.bias[b]) if pb else (m.weights, m.bias)
            want = (xb_ @ w).squeeze(-1) + bi
        got = out[b] if (pb or xb) else out
        if got.shape != want.shape or not torch.allclose(got, want, atol=1e-12):
            bad = True
            detail.append(f"{kind}Mean element {b}: {got.tolist()} vs {want.tolist()}")
    return {"violates": bad, "detail": "; ".join(detail) or "mean modules agree with per-element replicas",
            "entry": {"module": "contracts.C08_batch", "function": "replay_means", "args": [model, list(params), clause, info]}}


def replay_dist(model, params, clause, info):
    what, p = params
    if what == "log_prob":
        return c10.replay_log_prob(model, [p], clause, info)
    if what == "kl":
        return c10.replay_kl(model, [1], clause, info)
    return c10.replay_simple(model, [1], clause, info)


def replay_model_list(model, params, clause, info):
    import torch
    import gpytorch
    k, meth = params

    class M(gpytorch.models.ExactGP):
        def __init__(self, x, y):
            super().__init__(x, y, gpytorch.likelihoods.GaussianLikelihood())
            self.mean_module, self.covar_module = gpytorch.means.ConstantMean(), gpytorch.kernels.RBFKernel()

        def forward(self, x):
            return gpytorch.distributions.MultivariateNormal(self.mean_module(x), self.covar_module(x))

    torch.manual_seed(0)
    xs = [torch.randn(3 + i, 2) for i in range(k)]
    ms = [M(x, torch.randn(x.size(0))) for x in xs]
    for i, m in enumerate(ms):
        m.mean_module.constant.data.fill_(float(i))
    ml = gpytorch.models.IndependentModelList(*ms)
    outs = ml(*xs) if meth == "__call__" else ml.forward(*xs)
    bad = len(outs) != k or any(not torch.allclose(o.mean, (m(x) if meth == "__call__" else m.forward(x)).mean) or o.mean.shape[0] != x.size(0) for o, m, x in zip(outs, ms, xs))
    return {"violates": bool(bad), "detail": "IndependentModelList output differs from its members' outputs" if bad else "IndependentModelList returns its members' outputs",
            "entry": {"module": "contracts.C08_batch", "function": "replay_model_list", "args": [model, list(params), clause, info]}}


@case("C08", clause="kernel_getitem", expand=lambda ix: [(own,) for own in (False, True)], replay=lambda *a: replay_kernel_getitem(*a),
      functions=["gpytorch.kernels.kernel.Kernel.__getitem__", "gpytorch.kernels.kernel.Kernel.batch_shape", "gpytorch.kernels.kernel.Kernel.named_sub_kernels"])
def kernel_getitem(c, own_batch):
    """kernel[i] of a wrapper kernel whose batch shape comes (only) from its sub-kernel is a NEW kernel holding sub_kernel[i]; the wrapper's own
    batch-shaped parameter (if any) is indexed with i too; the source kernel keeps its sub-kernel"""
    it, ctx = c.it, c.ctx
    B = c.size("B")
    c.assume(B.t >= 1)
    sub = Stub("sub_kernel", attrs={"batch_shape": VTuple([VNum(B.t)], is_size=True)}, isa=("Kernel", "Module"))
    sub_i = Stub("sub_kernel[i]", attrs={"batch_shape": VTuple([], is_size=True)}, isa=("Kernel", "Module"))
    asked = []
    sub.methods["__getitem__"] = lambda idx: (asked.append(idx), sub_i)[1]
    sub.methods["named_modules"] = lambda *a, **k: VList([VTuple([VStrE(""), sub])])
    ci = it.index.get_class("gpytorch.kernels.kernel.Kernel")
    o = VObj(ci, label="WrapperKernel")
    par = sym_tensor("raw_outputscale", [B.t]) if own_batch else None
    if par is not None:
        par.meta["is_parameter"] = True
    o.fields.update({"_parameters": VDict({"raw_outputscale": par} if own_batch else {}), "_buffers": VDict({"active_dims": NONE}), "_modules": VDict({"base_kernel": sub}), "_priors": VDict(),
                     "_constraints": VDict(), "_added_loss_terms": VDict(), "training": TRUE, "_batch_shape": VTuple([VNum(B.t)] if own_batch else [], is_size=True),
                     "ard_num_dims": NONE, "eps": VNum(1e-6), "distance_module": NONE})
    i = c.int("i")
    c.assume(z3.And(i.t >= 0, i.t < B.t))
    new = it.call(ctx, c.getattr(o, "__getitem__"), [i], {})
    ok = isinstance(new, VObj) and new is not o
    c.prove("kernel_getitem.returns_a_new_kernel", z3.BoolVal(ok))
    if not ok:
        return
    c.prove("kernel_getitem.sub_kernel_indexed_with_the_index", z3.BoolVal(new.fields["_modules"].d.get("base_kernel") is sub_i and len(asked) == 1))
    c.prove("kernel_getitem.source_keeps_its_sub_kernel", z3.BoolVal(o.fields["_modules"].d.get("base_kernel") is sub))
    if own_batch:
        np_ = new.fields["_parameters"].d.get("raw_outputscale")
        good = np_ is not None and hasattr(np_, "dims") and len(np_.dims) == 0
        c.prove("kernel_getitem.own_parameter_indexed", z3.And(z3.BoolVal(good), np_.at([]) == par.at([i.t])) if good else z3.BoolVal(False))
        c.prove("kernel_getitem.source_parameter_untouched", z3.BoolVal(o.fields["_parameters"].d.get("raw_outputscale") is par and len(par.dims) == 1))


def VStrE(s):
    from engine.values import VStr
    return VStr(s)


def replay_kernel_getitem(model, params, clause, info):
    import torch
    import gpytorch
    torch.manual_seed(0)
    (own,) = params
    base = gpytorch.kernels.RBFKernel(batch_shape=torch.Size([3])).double()
    base.lengthscale = torch.tensor([0.3, 0.9, 2.0], dtype=torch.double).view(3, 1, 1)
    k = gpytorch.kernels.ScaleKernel(base, batch_shape=torch.Size([3]) if own else torch.Size([])).double()
    if own:
        k.outputscale = torch.tensor([0.5, 1.5, 2.5], dtype=torch.double)
    x = torch.randn(3, 4, 2, dtype=torch.double)
    with torch.no_grad(), gpytorch.settings.lazily_evaluate_kernels(False):
        full = k(x).to_dense()
        bad, detail = False, []
        for i in range(3):
            ki = k[i]
            got = ki(x[i]).to_dense()
            if got.shape != full[i].shape or not torch.allclose(got, full[i], atol=1e-12):
                bad = True
                detail.append(f"kernel[{i}](x[{i}]) differs from element {i} of the batched kernel (shape {tuple(got.shape)})")
    return {"violates": bad, "detail": "; ".join(detail) or "kernel[i] equals the i-th replica",
            "entry": {"module": "contracts.C08_batch", "function": "replay_kernel_getitem", "args": [model, list(params), clause, info]}}
