"""C04 -- fantasy models: assembly and frame of ExactGP.get_fantasy_model (proof tier).

Function under contract (real AST): models.exact_gp.ExactGP.get_fantasy_model.

For a single-output model with un-batched training data, fantasy inputs X_f (m, d) and targets y_f of shape (m,) or (f, m) (shared inputs):
  * the fantasy model's training data are the concatenation [X; X_f] (expanded over the fantasy batch when the targets carry one) and [y; y_f];
  * the joint prior handed to the strategy update is forward([X; X_f]); the new strategy is prediction_strategy.get_fantasy_strategy(X_f, y_f,
    [X; X_f], [y; y_f], that prior[, noise]) and the new likelihood is likelihood.get_fantasy_likelihood([noise]) -- callee contracts (the update
    algebra of get_fantasy_strategy is compared with from-scratch conditioning in the bounded tier);
  * FRAME: afterwards the source model holds the same train_inputs, train_targets, likelihood and prediction_strategy objects as before, and the
    copy is a different object (deepcopy modelled structurally, so aliasing between source and copy would be visible).
"""
from __future__ import annotations

import z3

from engine.dom_elem import ivar, sym_tensor
from engine.runner import case
from engine.values import FALSE, NONE, TRUE, VBool, VDict, VList, VNum, VObj, VStr, VTuple
from contracts.C15_objectives import module_obj
from contracts.dist_spec import make_mvn
from contracts.stubs import Stub

EG = "gpytorch.models.exact_gp.ExactGP"


@case("C04", clause="fantasy_assembly_and_frame", expand=lambda ix: [(shared, with_noise) for shared in (False, True) for with_noise in (False, True)], replay=lambda *a: replay_c04(*a),
      functions=[f"{EG}.get_fantasy_model"])
def fantasy_model(c, shared, with_noise):
    it, ctx = c.it, c.ctx
    n, m, d, F = c.size("n"), c.size("m"), c.size("d"), c.size("F")
    c.assume(z3.And(n.t >= 1, m.t >= 1, F.t >= 1))
    X, y = sym_tensor("X", [n.t, d.t]), sym_tensor("y", [n.t])
    Xf = sym_tensor("Xf", [m.t, d.t])
    yf = sym_tensor("yf", ([F.t] if shared else []) + [m.t])
    noise = sym_tensor("fantasy_noise", [m.t])
    train_prior = make_mvn(c, "train_prior", [], n.t)
    joint = make_mvn(c, "joint", [], n.t + m.t)
    new_strat, new_lik = Stub("fantasy_strategy"), Stub("fantasy_likelihood", isa=("Likelihood", "Module"))
    upd, likc, fwd = [], [], []
    strat = Stub("strategy", attrs={"train_prior_dist": train_prior}, methods={"get_fantasy_strategy": lambda *a, **k: (upd.append((list(a), dict(k))), new_strat)[1]})
    lik = Stub("likelihood", methods={"get_fantasy_likelihood": lambda **k: (likc.append(dict(k)), new_lik)[1]}, isa=("Likelihood", "Module"))
    tin = VTuple([X])
    model = module_obj(c, EG, "model", train_inputs=tin, _train_targets=y, training=FALSE, prediction_strategy=strat)
    model.fields["_modules"].d["likelihood"] = lik

    def hook(it_, ctx_, fi, args, kwargs):
        if not isinstance(fi, tuple) and fi.name == "forward" and args and args[0] is model:
            fwd.append(list(args[1:]))
            return joint
        return NotImplemented

    it.call_hooks.append(hook)
    c.ctx.classattrs[("gpytorch.settings.debug", "_state")] = FALSE
    kwargs = {"noise": noise} if with_noise else {}
    new = it.call(ctx, c.getattr(model, "get_fantasy_model"), [Xf, yf], kwargs)
    ok = isinstance(new, VObj) and new is not model
    c.prove("fantasy.returns_a_new_model", z3.BoolVal(ok))
    if not ok:
        return
    # frame
    c.prove("fantasy.source_keeps_its_training_data_likelihood_and_strategy",
            z3.BoolVal(model.fields.get("train_inputs") is tin and model.fields.get("_train_targets") is y and model.fields["_modules"].d.get("likelihood") is lik
                       and model.fields.get("prediction_strategy") is strat))
    # assembly
    c.prove("fantasy.one_joint_prior_on_the_stacked_inputs", z3.BoolVal(len(fwd) == 1 and len(fwd[0]) == 1))
    i, k, f = ivar("i"), ivar("k"), ivar("f")
    c.assume(z3.And(i >= 0, k >= 0, k < d.t, f >= 0, f < F.t))
    if len(fwd) == 1 and len(fwd[0]) == 1:
        full = fwd[0][0]
        c.prove("fantasy.stacked_inputs_are_[X; X_f]", z3.And(z3.BoolVal(len(full.dims) == 2), full.dims[0].size == n.t + m.t, z3.Implies(i < n.t, full.at_dims([i, k]) == X.at([i, k])),
                                                              z3.Implies(i < m.t, full.at_dims([n.t + i, k]) == Xf.at([i, k]))) if len(full.dims) == 2 else z3.BoolVal(False))
    oku = len(upd) == 1 and len(upd[0][0]) == 5
    c.prove("fantasy.one_strategy_update", z3.BoolVal(oku))
    if oku:
        a, kw = upd[0]
        c.prove("fantasy.update_arguments", z3.BoolVal(isinstance(a[0], VList) and len(a[0].items) == 1 and a[1] is yf and a[4] is joint
                                                       and ((kw.get("noise") is noise) if with_noise else ("noise" not in kw))))
        ft = a[3]
        fb = [f] if shared else []
        c.prove("fantasy.full_targets_are_[y; y_f]", z3.And(z3.BoolVal(len(ft.dims) == len(fb) + 1), ft.dims[-1].size == n.t + m.t, z3.Implies(i < n.t, ft.at_dims(fb + [i]) == y.at([i])),
                                                            z3.Implies(i < m.t, ft.at_dims(fb + [n.t + i]) == yf.at(fb + [i]))) if len(ft.dims) == len(fb) + 1 else z3.BoolVal(False))
        nt = new.fields.get("_train_targets")
        c.prove("fantasy.new_model_targets_are_the_full_targets", z3.BoolVal(nt is ft))
    c.prove("fantasy.likelihood_is_the_fantasy_likelihood", z3.BoolVal(len(likc) == 1 and new.fields["_modules"].d.get("likelihood") is new_lik
                                                                       and ((likc[0].get("noise") is noise) if with_noise else ("noise" not in likc[0]))))
    c.prove("fantasy.strategy_is_the_updated_strategy", z3.BoolVal(new.fields.get("prediction_strategy") is new_strat))
    ni = new.fields.get("train_inputs")
    good = isinstance(ni, (VList, VTuple)) and len(ni.items) == 1 and hasattr(ni.items[0], "dims")
    c.prove("fantasy.new_model_inputs", z3.BoolVal(good))
    if good:
        t0 = ni.items[0]
        fb = [f] if shared else []
        c.prove("fantasy.new_model_inputs_are_[X; X_f] (expanded over the fantasy batch)",
                z3.And(z3.BoolVal(len(t0.dims) == len(fb) + 2), t0.dims[-2].size == n.t + m.t, z3.Implies(i < n.t, t0.at_dims(fb + [i, k]) == X.at([i, k])),
                       z3.Implies(i < m.t, t0.at_dims(fb + [n.t + i, k]) == Xf.at([i, k]))) if len(t0.dims) == len(fb) + 2 else z3.BoolVal(False))


def replay_c04(model, params, clause, info):
    try:
        from bounded import C04_fantasies as Bd
    except Exception as e:  # noqa: BLE001
        return {"violates": None, "detail": f"bounded tier for C04 not available: {e}"}
    import json
    import os
    import re
    r = Bd.run("quick", 0)
    kf = json.load(open(os.path.join(os.path.dirname(os.path.dirname(os.path.abspath(__file__))), "known_findings.json")))
    pats = [re.compile(f["match"]) for f in kf["findings"] if f["property"] == "C04"]
    bad = [v for v in r["violations"] if not any(p.fullmatch("bounded:" + v["key"]) for p in pats)]
    return {"violates": bool(bad), "detail": "; ".join(f"{v['key']}: {v['detail']}" for v in bad[:5])[:700] or "fantasy models agree with conditioning from scratch on the real code (known findings aside)",
            "entry": {"module": "contracts.C04_fantasy", "function": "replay_c04", "args": [model, list(params), clause, info]}}


# ------------------------------------------------------------------ fantasy likelihoods ---------------------------------------------
GLM = "gpytorch.likelihoods.gaussian_likelihood"


@case("C04", clause="fantasy_likelihood", name="fixed_noise_fantasy_likelihood", expand=lambda ix: [(learn, fb) for learn in (False, True) for fb in (False, True)], replay=lambda *a: replay_c04(*a),
      functions=[f"{GLM}.FixedNoiseGaussianLikelihood.get_fantasy_likelihood"])
def fixed_noise_fantasy_likelihood(c, learn, fb):
    """the fantasy model's likelihood must be the likelihood of the extended data set: its FIXED noise vector is [old fixed noise; fantasy noise]
    (the old one expanded over the fantasy batch), the learned additional noise (if any) is carried over once -- as its own copied module, not folded
    into the fixed part -- and the source likelihood keeps its noise model object and values (frame)"""
    from contracts.C12_gaussian_likelihoods import fixed_setup
    it, ctx = c.it, c.ctx
    lik, fixed, mfn, n, B = fixed_setup(c, learn, 0)
    m, F = c.size("m"), c.size("F")
    c.assume(z3.And(m.t >= 1, F.t >= 1))
    new = sym_tensor("fantasy_noise", ([F.t] if fb else []) + [m.t])
    nc0 = lik.fields["_modules"].d["noise_covar"]
    old = c.getattr(nc0, "noise").frozen()
    sec0 = lik.fields["_modules"].d.get("second_noise_covar")
    raw0 = sec0.fields["_parameters"].d["raw_noise"] if learn else None
    res = it.call(ctx, c.getattr(lik, "get_fantasy_likelihood"), [], {"noise": new})
    ok = isinstance(res, VObj) and res is not lik and res.cls.name == "FixedNoiseGaussianLikelihood"
    c.prove("fantasy_likelihood.is_a_new_FixedNoiseGaussianLikelihood", z3.BoolVal(ok))
    if not ok:
        return
    k, f = ivar("k"), ivar("f")
    c.assume(z3.And(k >= 0, k < n + m.t, f >= 0, f < F.t))
    lead = [f] if fb else []
    nc1 = res.fields["_modules"].d.get("noise_covar")
    okn = isinstance(nc1, VObj) and nc1 is not nc0
    c.prove("fantasy_likelihood.has_its_own_noise_model", z3.BoolVal(okn))
    if okn:
        nz = c.getattr(nc1, "noise")
        okd = len(nz.dims) == len(lead) + 1
        want = z3.If(k < n, old.at([k]), new.at(lead + [k - n]))  # FixedGaussianNoise rounds entries below settings.min_fixed_noise up to it (C07/C12)
        c.prove("fantasy_likelihood.fixed_noise_is_old_fixed_noise_then_fantasy_noise",
                z3.And(nz.dims[-1].size == n + m.t, z3.Or(nz.at_dims(lead + [k]) == want, nz.at_dims(lead + [k]) == z3.If(want < mfn, mfn, want))) if okd else z3.BoolVal(False))
    # frame: the source keeps its noise model (same object, same values)
    c.prove("fantasy_likelihood.source_keeps_its_noise_model", z3.BoolVal(lik.fields["_modules"].d.get("noise_covar") is nc0))
    now = c.getattr(nc0, "noise")
    i = ivar("i")
    c.assume(z3.And(i >= 0, i < n))
    c.prove("fantasy_likelihood.source_noise_unchanged", z3.And(z3.BoolVal(len(now.dims) == 1), now.at_dims([i]) == old.at([i])) if len(now.dims) == 1 else z3.BoolVal(False))
    sec1 = res.fields["_modules"].d.get("second_noise_covar")
    if learn:
        oks = isinstance(sec1, VObj) and sec1 is not sec0 and "raw_noise" in sec1.fields["_parameters"].d
        c.prove("fantasy_likelihood.additional_noise_module_copied", z3.BoolVal(oks))
        if oks:
            r1 = sec1.fields["_parameters"].d["raw_noise"]
            c.prove("fantasy_likelihood.additional_noise_value_carried_over", z3.And(z3.BoolVal(r1 is not raw0 and len(r1.dims) == 1), r1.at_dims([z3.IntVal(0)]) == raw0.at([z3.IntVal(0)])) if len(r1.dims) == 1 else z3.BoolVal(False))
    else:
        c.prove("fantasy_likelihood.no_additional_noise_appears", z3.BoolVal(sec1 is None or sec1 is NONE))


@case("C04", clause="fantasy_likelihood", name="fixed_noise_fantasy_requires_noise", expand=lambda ix: [()], replay=lambda *a: replay_c04(*a),
      functions=[f"{GLM}.FixedNoiseGaussianLikelihood.get_fantasy_likelihood"])
def fixed_noise_fantasy_requires_noise(c):
    from contracts.C12_gaussian_likelihoods import fixed_setup
    lik, fixed, mfn, n, B = fixed_setup(c, False, 0)
    exc = c.raises(lambda: c.it.call(c.ctx, c.getattr(lik, "get_fantasy_likelihood"), [], {}))
    c.prove("fantasy_likelihood.fixed_noise_without_noise_rejected", z3.BoolVal(exc is not None and exc.clsname == "RuntimeError"))
