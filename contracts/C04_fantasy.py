"""C04 -- fantasy models: assembly and frame of ExactGP.get_fantasy_model (proof tier).

Function under contract (real AST): models.exact_gp.ExactGP.get_fantasy_model.

For a single-output model with un-batched training data, fantasy inputs X_f (m, d) and targets y_f of shape (m,) or (f, m) (shared inputs):
  * the fantasy model's training data are the concatenation [X; X_f] (expanded over the fantasy batch when the targets carry one) and [y; y_f];
  * the joint prior handed to the strategy update is forward([X; X_f]); the new strategy is prediction_strategy.get_fantasy_strategy(X_f, y_f,
    [X; X_f], [y; y_f], that prior[, noise]) and the new likelihood is likelihood.get_fantasy_likelihood([noise]) -- callee contracts (the update
    algebra of get_fantasy_strategy is compared with from-scratch conditioning in the bounded tier);
  * DefaultPredictionStrategy.get_fantasy_strategy (un-batched single-output case) computes exactly the terms of the bordered-system update
    (fantasy_strategy_update) and a Lean lemma (lean/Bordered.lean) shows that these terms solve the full system -- see the docstrings below;
  * FRAME: afterwards the source model holds the same train_inputs, train_targets, likelihood and prediction_strategy objects as before, and the
    copy is a different object (deepcopy modelled structurally, so aliasing between source and copy would be visible).
"""
from __future__ import annotations

import z3

from engine.dom_elem import ivar, sym_tensor
from engine.runner import case
from engine.values import FALSE, NONE, TRUE, VBool, VDict, VList, VNum, VObj, VStr, VTuple
from contracts.C15_objectives import module_obj
from contracts.dist_spec import make_mvn
from contracts.stubs import Stub

EG = "gpytorch.models.exact_gp.ExactGP"


@case("C04", clause="fantasy_assembly_and_frame", expand=lambda ix: [(shared, with_noise) for shared in (False, True) for with_noise in (False, True)], replay=lambda *a: replay_c04(*a),
      functions=[f"{EG}.get_fantasy_model"])
def fantasy_model(c, shared, with_noise):
    it, ctx = c.it, c.ctx
    n, m, d, F = c.size("n"), c.size("m"), c.size("d"), c.size("F")
    c.assume(z3.And(n.t >= 1, m.t >= 1, F.t >= 1))
    X, y = sym_tensor("X", [n.t, d.t]), sym_tensor("y", [n.t])
    Xf = sym_tensor("Xf", [m.t, d.t])
    yf = sym_tensor("yf", ([F.t] if shared else []) + [m.t])
    noise = sym_tensor("fantasy_noise", [m.t])
    train_prior = make_mvn(c, "train_prior", [], n.t)
    joint = make_mvn(c, "joint", [], n.t + m.t)
    new_strat, new_lik = Stub("fantasy_strategy"), Stub("fantasy_likelihood", isa=("Likelihood", "Module"))
    upd, likc, fwd = [], [], []
    strat = Stub("strategy", attrs={"train_prior_dist": train_prior}, methods={"get_fantasy_strategy": lambda *a, **k: (upd.append((list(a), dict(k))), new_strat)[1]})
    lik = Stub("likelihood", methods={"get_fantasy_likelihood": lambda **k: (likc.append(dict(k)), new_lik)[1]}, isa=("Likelihood", "Module"))
    tin = VTuple([X])
    model = module_obj(c, EG, "model", train_inputs=tin, _train_targets=y, training=FALSE, prediction_strategy=strat)
    model.fields["_modules"].d["likelihood"] = lik

    def hook(it_, ctx_, fi, args, kwargs):
        if not isinstance(fi, tuple) and fi.name == "forward" and args and args[0] is model:
            fwd.append(list(args[1:]))
            return joint
        return NotImplemented

    it.call_hooks.append(hook)
    c.ctx.classattrs[("gpytorch.settings.debug", "_state")] = FALSE
    kwargs = {"noise": noise} if with_noise else {}
    new = it.call(ctx, c.getattr(model, "get_fantasy_model"), [Xf, yf], kwargs)
    ok = isinstance(new, VObj) and new is not model
    c.prove("fantasy.returns_a_new_model", z3.BoolVal(ok))
    if not ok:
        return
    # frame
    c.prove("fantasy.source_keeps_its_training_data_likelihood_and_strategy",
            z3.BoolVal(model.fields.get("train_inputs") is tin and model.fields.get("_train_targets") is y and model.fields["_modules"].d.get("likelihood") is lik
                       and model.fields.get("prediction_strategy") is strat))
    # assembly
    c.prove("fantasy.one_joint_prior_on_the_stacked_inputs", z3.BoolVal(len(fwd) == 1 and len(fwd[0]) == 1))
    i, k, f = ivar("i"), ivar("k"), ivar("f")
    c.assume(z3.And(i >= 0, k >= 0, k < d.t, f >= 0, f < F.t))
    if len(fwd) == 1 and len(fwd[0]) == 1:
        full = fwd[0][0]
        c.prove("fantasy.stacked_inputs_are_[X; X_f]", z3.And(z3.BoolVal(len(full.dims) == 2), full.dims[0].size == n.t + m.t, z3.Implies(i < n.t, full.at_dims([i, k]) == X.at([i, k])),
                                                              z3.Implies(i < m.t, full.at_dims([n.t + i, k]) == Xf.at([i, k]))) if len(full.dims) == 2 else z3.BoolVal(False))
    oku = len(upd) == 1 and len(upd[0][0]) == 5
    c.prove("fantasy.one_strategy_update", z3.BoolVal(oku))
    if oku:
        a, kw = upd[0]
        c.prove("fantasy.update_arguments", z3.BoolVal(isinstance(a[0], VList) and len(a[0].items) == 1 and a[1] is yf and a[4] is joint
                                                       and ((kw.get("noise") is noise) if with_noise else ("noise" not in kw))))
        ft = a[3]
        fb = [f] if shared else []
        c.prove("fantasy.full_targets_are_[y; y_f]", z3.And(z3.BoolVal(len(ft.dims) == len(fb) + 1), ft.dims[-1].size == n.t + m.t, z3.Implies(i < n.t, ft.at_dims(fb + [i]) == y.at([i])),
                                                            z3.Implies(i < m.t, ft.at_dims(fb + [n.t + i]) == yf.at(fb + [i]))) if len(ft.dims) == len(fb) + 1 else z3.BoolVal(False))
        nt = new.fields.get("_train_targets")
        c.prove("fantasy.new_model_targets_are_the_full_targets", z3.BoolVal(nt is ft))
    c.prove("fantasy.likelihood_is_the_fantasy_likelihood", z3.BoolVal(len(likc) == 1 and new.fields["_modules"].d.get("likelihood") is new_lik
                                                                       and ((likc[0].get("noise") is noise) if with_noise else ("noise" not in likc[0]))))
    c.prove("fantasy.strategy_is_the_updated_strategy", z3.BoolVal(new.fields.get("prediction_strategy") is new_strat))
    ni = new.fields.get("train_inputs")
    good = isinstance(ni, (VList, VTuple)) and len(ni.items) == 1 and hasattr(ni.items[0], "dims")
    c.prove("fantasy.new_model_inputs", z3.BoolVal(good))
    if good:
        t0 = ni.items[0]
        fb = [f] if shared else []
        c.prove("fantasy.new_model_inputs_are_[X; X_f] (expanded over the fantasy batch)",
                z3.And(z3.BoolVal(len(t0.dims) == len(fb) + 2), t0.dims[-2].size == n.t + m.t, z3.Implies(i < n.t, t0.at_dims(fb + [i, k]) == X.at([i, k])),
                       z3.Implies(i < m.t, t0.at_dims(fb + [n.t + i, k]) == Xf.at([i, k]))) if len(t0.dims) == len(fb) + 2 else z3.BoolVal(False))


def _fantasy_independent_of_source():
    """the fantasy model is a model of its own: it shares no parameter with its source, and assigning a hyperparameter of the FANTASY model through the public
    setter leaves the source's predictions unchanged (for a homoskedastic and a fixed-noise likelihood)"""
    import torch
    import gpytorch
    torch.manual_seed(1)
    bad = []
    X, y = torch.rand(6, 1, dtype=torch.double), torch.randn(6, dtype=torch.double)
    Xf, yf, Xs = torch.rand(2, 1, dtype=torch.double), torch.randn(2, dtype=torch.double), torch.rand(3, 1, dtype=torch.double)

    class G(gpytorch.models.ExactGP):
        def __init__(self, lik):
            super().__init__(X, y, lik)
            self.mean_module, self.covar_module = gpytorch.means.ConstantMean(), gpytorch.kernels.ScaleKernel(gpytorch.kernels.RBFKernel())

        def forward(self, x):
            return gpytorch.distributions.MultivariateNormal(self.mean_module(x), self.covar_module(x))

    for name, lik, kw in (("gaussian", gpytorch.likelihoods.GaussianLikelihood(), {}),
                          ("fixed_noise", gpytorch.likelihoods.FixedNoiseGaussianLikelihood(torch.full((6,), 0.3, dtype=torch.double), learn_additional_noise=True), {"noise": torch.full((2,), 0.2, dtype=torch.double)})):
        g = G(lik.double()).double()
        g.eval()
        with torch.no_grad():
            g(Xs)
            before = g.likelihood(g(Xs), **({"noise": torch.full((3,), 0.1, dtype=torch.double)} if kw else {}))
            b_mean, b_cov = before.mean.clone(), before.covariance_matrix.clone()
            fm = g.get_fantasy_model(Xf, yf, **kw)
            shared = {id(p) for p in g.parameters()} & {id(p) for p in fm.parameters()}
            if shared:
                bad.append(f"{name}: the fantasy model shares {len(shared)} parameter tensor(s) with its source")
            if name == "gaussian":
                fm.likelihood.noise = float(fm.likelihood.noise) * 3.0
            else:
                fm.likelihood.second_noise = float(fm.likelihood.second_noise) * 3.0
            fm.covar_module.outputscale = float(fm.covar_module.outputscale) * 2.0
            after = g.likelihood(g(Xs), **({"noise": torch.full((3,), 0.1, dtype=torch.double)} if kw else {}))
            if not (torch.equal(after.mean, b_mean) and torch.equal(after.covariance_matrix, b_cov)):
                bad.append(f"{name}: assigning hyperparameters of the FANTASY model changed the source's predictive distribution by {(after.covariance_matrix - b_cov).abs().max().item():.2e}")
    return bad


def replay_c04(model, params, clause, info):
    if "likelihood_is_the_fantasy_likelihood" in clause or "returns_a_new_model" in clause:
        bad = _fantasy_independent_of_source()
        if bad:
            return {"violates": True, "detail": "; ".join(bad)[:700], "entry": {"module": "contracts.C04_fantasy", "function": "replay_c04", "args": [model, list(params), clause, info]}}
    try:
        from bounded import C04_fantasies as Bd
    except Exception as e:  # noqa: BLE001
        return {"violates": None, "detail": f"bounded tier for C04 not available: {e}"}
    import json
    import os
    import re
    r = Bd.run("quick", 0)
    kf = json.load(open(os.path.join(os.path.dirname(os.path.dirname(os.path.abspath(__file__))), "known_findings.json")))
    pats = [re.compile(f["match"]) for f in kf["findings"] if f["property"] == "C04"]
    bad = [v for v in r["violations"] if not any(p.fullmatch("bounded:" + v["key"]) for p in pats)]
    return {"violates": bool(bad), "detail": "; ".join(f"{v['key']}: {v['detail']}" for v in bad[:5])[:700] or "fantasy models agree with conditioning from scratch on the real code (known findings aside)",
            "entry": {"module": "contracts.C04_fantasy", "function": "replay_c04", "args": [model, list(params), clause, info]}}


# ------------------------------------------------------------------ fantasy likelihoods ---------------------------------------------
GLM = "gpytorch.likelihoods.gaussian_likelihood"


@case("C04", clause="fantasy_likelihood", name="fixed_noise_fantasy_likelihood", expand=lambda ix: [(learn, fb) for learn in (False, True) for fb in (False, True)], replay=lambda *a: replay_c04(*a),
      functions=[f"{GLM}.FixedNoiseGaussianLikelihood.get_fantasy_likelihood"])
def fixed_noise_fantasy_likelihood(c, learn, fb):
    """the fantasy model's likelihood must be the likelihood of the extended data set: its FIXED noise vector is [old fixed noise; fantasy noise]
    (the old one expanded over the fantasy batch), the learned additional noise (if any) is carried over once -- as its own copied module, not folded
    into the fixed part -- and the source likelihood keeps its noise model object and values (frame)"""
    from contracts.C12_gaussian_likelihoods import fixed_setup
    it, ctx = c.it, c.ctx
    lik, fixed, mfn, n, B = fixed_setup(c, learn, 0)
    m, F = c.size("m"), c.size("F")
    c.assume(z3.And(m.t >= 1, F.t >= 1))
    new = sym_tensor("fantasy_noise", ([F.t] if fb else []) + [m.t])
    nc0 = lik.fields["_modules"].d["noise_covar"]
    old = c.getattr(nc0, "noise").frozen()
    sec0 = lik.fields["_modules"].d.get("second_noise_covar")
    raw0 = sec0.fields["_parameters"].d["raw_noise"] if learn else None
    res = it.call(ctx, c.getattr(lik, "get_fantasy_likelihood"), [], {"noise": new})
    ok = isinstance(res, VObj) and res is not lik and res.cls.name == "FixedNoiseGaussianLikelihood"
    c.prove("fantasy_likelihood.is_a_new_FixedNoiseGaussianLikelihood", z3.BoolVal(ok))
    if not ok:
        return
    k, f = ivar("k"), ivar("f")
    c.assume(z3.And(k >= 0, k < n + m.t, f >= 0, f < F.t))
    lead = [f] if fb else []
    nc1 = res.fields["_modules"].d.get("noise_covar")
    okn = isinstance(nc1, VObj) and nc1 is not nc0
    c.prove("fantasy_likelihood.has_its_own_noise_model", z3.BoolVal(okn))
    if okn:
        nz = c.getattr(nc1, "noise")
        okd = len(nz.dims) == len(lead) + 1
        want = z3.If(k < n, old.at([k]), new.at(lead + [k - n]))  # FixedGaussianNoise rounds entries below settings.min_fixed_noise up to it (C07/C12)
        c.prove("fantasy_likelihood.fixed_noise_is_old_fixed_noise_then_fantasy_noise",
                z3.And(nz.dims[-1].size == n + m.t, z3.Or(nz.at_dims(lead + [k]) == want, nz.at_dims(lead + [k]) == z3.If(want < mfn, mfn, want))) if okd else z3.BoolVal(False))
    # frame: the source keeps its noise model (same object, same values)
    c.prove("fantasy_likelihood.source_keeps_its_noise_model", z3.BoolVal(lik.fields["_modules"].d.get("noise_covar") is nc0))
    now = c.getattr(nc0, "noise")
    i = ivar("i")
    c.assume(z3.And(i >= 0, i < n))
    c.prove("fantasy_likelihood.source_noise_unchanged", z3.And(z3.BoolVal(len(now.dims) == 1), now.at_dims([i]) == old.at([i])) if len(now.dims) == 1 else z3.BoolVal(False))
    sec1 = res.fields["_modules"].d.get("second_noise_covar")
    if learn:
        oks = isinstance(sec1, VObj) and sec1 is not sec0 and "raw_noise" in sec1.fields["_parameters"].d
        c.prove("fantasy_likelihood.additional_noise_module_copied", z3.BoolVal(oks))
        if oks:
            r1 = sec1.fields["_parameters"].d["raw_noise"]
            c.prove("fantasy_likelihood.additional_noise_value_carried_over", z3.And(z3.BoolVal(r1 is not raw0 and len(r1.dims) == 1), r1.at_dims([z3.IntVal(0)]) == raw0.at([z3.IntVal(0)])) if len(r1.dims) == 1 else z3.BoolVal(False))
    else:
        c.prove("fantasy_likelihood.no_additional_noise_appears", z3.BoolVal(sec1 is None or sec1 is NONE))


@case("C04", clause="fantasy_likelihood", name="fixed_noise_fantasy_requires_noise", expand=lambda ix: [()], replay=lambda *a: replay_c04(*a),
      functions=[f"{GLM}.FixedNoiseGaussianLikelihood.get_fantasy_likelihood"])
def fixed_noise_fantasy_requires_noise(c):
    from contracts.C12_gaussian_likelihoods import fixed_setup
    lik, fixed, mfn, n, B = fixed_setup(c, False, 0)
    exc = c.raises(lambda: c.it.call(c.ctx, c.getattr(lik, "get_fantasy_likelihood"), [], {}))
    c.prove("fantasy_likelihood.fixed_noise_without_noise_rejected", z3.BoolVal(exc is not None and exc.clsname == "RuntimeError"))


# ------------------------------------------------------------------ the bordered-system update of the caches -------------------------
PS = "gpytorch.models.exact_prediction_strategies.DefaultPredictionStrategy"


@case("C04", clause="cache_update", name="fantasy_strategy_update", expand=lambda ix: [(detach,) for detach in (True, False)], replay=lambda *a: replay_c04(*a),
      functions=[f"{PS}.get_fantasy_strategy", f"{PS}.__init__"], timeout=300)
def fantasy_strategy_update(c, detach):
    """get_fantasy_strategy (single-output, un-batched, per-call fantasy inputs) computes exactly the terms of the bordered-system lemma
    (lean/Bordered.lean, checked by Lean on every run):
        Q     = Kinv @ U^T            with Kinv the cached inverse decomposition of K = lik_train_train_covar          (callee: K Kinv = I)
        Schur = S - U Q               with U = prior covariance (fantasy x train), S = covariance of fantasy_likelihood(N(mu_f, K_ff), X_f)
        b     = cholesky_solve(y_f - mu_f - U alpha, cholesky(Schur))                                                 (callee: Schur b = rhs)
        cache = [alpha - Q b ; b]
    so that, by the lemma, [K U^T; U S] cache = [y - mu; y_f - mu_f] whenever K alpha = y - mu (C01's mean-cache contract): the carried solve equals
    the solve recomputed from the full data.  The carried root / inverse root are those of K.cat_rows(U, S) (callee: the bordered matrix); the new strategy
    is built on the full inputs / targets, the joint prior and the fantasy likelihood."""
    from contracts.C01_exact_posterior import strategy, setting
    from engine.dom_elem import mk_sum
    it, ctx = c.it, c.ctx
    n, m, d, r = c.size("n"), c.size("m"), c.size("d"), c.size("r")
    c.assume(z3.And(n.t >= 1, m.t >= 1, r.t >= 1))
    prior = make_mvn(c, "train_prior", [], n.t)
    joint = make_mvn(c, "joint_prior", [], n.t + m.t)
    mu, Sig = joint.fields["loc"], joint.fields["_covar"]
    X, Xf = sym_tensor("X", [n.t, d.t]), sym_tensor("Xf", [m.t, d.t])
    Xfull = sym_tensor("X_full", [n.t + m.t, d.t])
    y, yf, yfull = sym_tensor("y", [n.t]), sym_tensor("yf", [m.t]), sym_tensor("y_full", [n.t + m.t])
    alpha = sym_tensor("mean_cache", [n.t])
    Q = sym_tensor("Kinv_times_Ut", [n.t, m.t])
    S = sym_tensor("S_noisy_fantasy_covariance", [m.t, m.t])
    Lf = sym_tensor("cholesky_of_schur", [m.t, m.t])
    bsol = sym_tensor("b", [m.t, z3.IntVal(1)])
    ROOT = sym_tensor("root_of_bordered", [n.t + m.t, r.t], is_linop=True)
    IROOT = sym_tensor("inv_root_of_bordered", [n.t + m.t, r.t], is_linop=True)
    rec = {"kinv_matmul": [], "cat_rows": [], "chol": [], "chol_solve": [], "fant_lik": [], "lik_kwargs": []}
    kinv = Stub("K.root_inv_decomposition()", methods={"matmul": lambda a: (rec["kinv_matmul"].append(a), Q)[1]}, isa=("LinearOperator",))
    new_lt = Stub("K.cat_rows(U, S)", methods={"root_decomposition": lambda *a, **k: Stub("root_decomposition", attrs={"root": ROOT}),
                                                "root_inv_decomposition": lambda *a, **k: Stub("root_inv_decomposition", attrs={"root": IROOT})}, isa=("LinearOperator",))
    K = Stub("lik_train_train_covar", methods={"root_inv_decomposition": lambda *a, **k: kinv, "cat_rows": lambda u, s, **k: (rec["cat_rows"].append((u, s)), new_lt)[1]}, isa=("LinearOperator",))
    Knew = Stub("cov(fantasy_likelihood(joint prior))", isa=("LinearOperator",))
    Knew.attrs["_memoize_cache"] = VDict()
    mvn_obs = Stub("fantasy_likelihood(N(mu_f, K_ff), X_f)", attrs={"covariance_matrix": S}, isa=("MultivariateNormal",))
    marg_full = Stub("fantasy_likelihood(joint prior, full inputs)", attrs={"lazy_covariance_matrix": Knew}, isa=("MultivariateNormal",))

    def fl_call(*a, **k):
        rec["fant_lik"].append((list(a), dict(k)))
        return mvn_obs if len(rec["fant_lik"]) == 1 else marg_full

    fant_lik = Stub("fantasy_likelihood", methods={"__call__": fl_call}, isa=("Likelihood", "Module"))
    lik = Stub("likelihood", methods={"get_fantasy_likelihood": lambda **k: (rec["lik_kwargs"].append(dict(k)), fant_lik)[1]}, isa=("Likelihood", "Module"))
    o = strategy(c, n.t, train_prior_dist=prior, likelihood=lik, train_inputs=VList([X]), train_labels=y, lik_train_train_covar=K)
    it.attr_hooks.append(lambda it_, ctx_, obj, name: alpha if (obj is o and name == "mean_cache") else None)
    it.optable["linear_operator.utils.cholesky.psd_safe_cholesky"] = lambda it_, ctx_, a, k: (rec["chol"].append(a[0]), Lf)[1]
    it.optable["torch.cholesky_solve"] = lambda it_, ctx_, a, k: (rec["chol_solve"].append((a[0], a[1])), bsol)[1]
    setting(c, "detach_test_caches", "_state", VBool(detach))
    new = it.call(ctx, c.getattr(o, "get_fantasy_strategy"), [Xf, yf, VList([Xfull]), yfull, joint], {})
    i, j, p, q = ivar("i"), ivar("j"), ivar("p"), ivar("q")
    c.assume(z3.And(i >= 0, i < n.t, j >= 0, j < n.t, p >= 0, p < m.t, q >= 0, q < m.t))
    ok = all(len(rec[k_]) == 1 for k_ in ("kinv_matmul", "cat_rows", "chol", "chol_solve", "lik_kwargs")) and len(rec["fant_lik"]) == 2
    c.prove("update.each_callee_used_once", z3.BoolVal(ok), counts={k_: len(v) for k_, v in rec.items()})
    if not ok:
        return
    U = lambda p_, i_: Sig.at([n.t + p_, i_])  # noqa: E731  fantasy x train block of the joint prior covariance
    # the fantasy likelihood sees N(mu_f, K_ff) at the fantasy inputs
    (a1, k1) = rec["fant_lik"][0]
    fm = a1[0]
    okm = isinstance(fm, VObj) and fm.cls.name == "MultivariateNormal" and len(a1) >= 2 and a1[1] is Xf
    c.prove("update.fantasy_likelihood_applied_to_the_fantasy_block_of_the_joint_prior_at_Xf", z3.And(
        fm.fields["loc"].at_dims([p]) == mu.at([n.t + p]), (fm.fields.get("_covar") if fm.fields.get("_covar") is not None else fm.fields["covariance_matrix"]).at_dims([p, q]) == Sig.at([n.t + p, n.t + q])) if okm else z3.BoolVal(False))
    ut = rec["kinv_matmul"][0]
    c.prove("update.Q_is_Kinv_times_U_transposed", z3.And(z3.BoolVal(len(ut.dims) == 2), ut.dims[0].size == n.t, ut.dims[1].size == m.t, ut.at_dims([i, p]) == U(p, i)) if len(ut.dims) == 2 else z3.BoolVal(False))
    sch = rec["chol"][0]
    c.prove("update.schur_complement_is_S_minus_U_Q", z3.And(z3.BoolVal(len(sch.dims) == 2), sch.at_dims([p, q]) == S.at([p, q]) - mk_sum(lambda t: U(p, t) * Q.at([t, q]), n.t)) if len(sch.dims) == 2 else z3.BoolVal(False))
    rhs, fac = rec["chol_solve"][0]
    c.prove("update.small_system_solved_with_the_schur_factor", z3.BoolVal(fac is Lf))
    c.prove("update.small_system_rhs_is_yf_minus_muf_minus_U_alpha", z3.And(z3.BoolVal(len(rhs.dims) == 2), rhs.dims[1].size == 1,
            rhs.at_dims([p, z3.IntVal(0)]) == yf.at([p]) - mu.at([n.t + p]) - mk_sum(lambda t: U(p, t) * alpha.at([t]), n.t)) if len(rhs.dims) == 2 else z3.BoolVal(False))
    cu, cs = rec["cat_rows"][0]
    c.prove("update.bordered_matrix_is_K_cat_rows_U_S", z3.And(z3.BoolVal(len(cu.dims) == 2 and len(cs.dims) == 2), cu.at_dims([p, i]) == U(p, i), cs.at_dims([p, q]) == S.at([p, q])) if len(cu.dims) == 2 and len(cs.dims) == 2 else z3.BoolVal(False))
    okn = isinstance(new, VObj) and new is not o and new.cls.name == "DefaultPredictionStrategy"
    c.prove("update.returns_a_new_strategy", z3.BoolVal(okn))
    if not okn:
        return
    memo = new.fields.get("_memoize_cache")
    cache = None
    if memo is not None:
        for kk, vv in memo.d.items():
            if "mean_cache" in str(kk):
                cache = vv
    okc = cache is not None and hasattr(cache, "dims") and len(cache.dims) == 1
    k_ = ivar("k")
    c.assume(z3.And(k_ >= 0, k_ < n.t + m.t))
    c.prove("update.new_mean_cache_is_alpha_minus_Q_b_then_b", z3.And(cache.dims[0].size == n.t + m.t, cache.at_dims([k_]) == z3.If(
        k_ < n.t, alpha.at([k_]) - mk_sum(lambda t: Q.at([k_, t]) * bsol.at([t, z3.IntVal(0)]), m.t), bsol.at([k_ - n.t, z3.IntVal(0)]))) if okc else z3.BoolVal(False))
    c.prove("update.new_strategy_built_on_full_data_joint_prior_and_fantasy_likelihood", z3.BoolVal(
        new.fields.get("likelihood") is fant_lik and new.fields.get("train_labels") is not None and new.fields.get("lik_train_train_covar") is Knew
        and isinstance(new.fields.get("train_inputs"), VList) and new.fields["train_inputs"].items[0] is Xfull))
    tp = new.fields.get("train_prior_dist")
    oktp = isinstance(tp, VObj) and tp.cls.name == "MultivariateNormal"
    tcov = (tp.fields.get("_covar") if tp.fields.get("_covar") is not None else tp.fields.get("covariance_matrix")) if oktp else None
    c.prove("update.new_train_prior_is_the_joint_prior", z3.And(tp.fields["loc"].at_dims([k_]) == mu.at([k_]), tcov.at_dims([k_, n.t + p]) == Sig.at([k_, n.t + p])) if oktp else z3.BoolVal(False))
    yl = new.fields.get("train_labels")
    c.prove("update.new_labels_are_the_full_targets", z3.And(z3.BoolVal(len(yl.dims) == 1), yl.at_dims([k_]) == yfull.at([k_])) if hasattr(yl, "dims") and len(yl.dims) == 1 else z3.BoolVal(False))
    # carried decompositions: the roots of the bordered matrix, registered on the new training covariance
    km = Knew.attrs["_memoize_cache"].d
    got = {str(kk): vv for kk, vv in km.items()}
    rd = next((vv for kk, vv in got.items() if "root_decomposition" in kk and "inv" not in kk), None)
    ri = next((vv for kk, vv in got.items() if "root_inv_decomposition" in kk), None)
    e = ivar("e")
    c.assume(z3.And(e >= 0, e < n.t + m.t))
    okr = rd is not None and ri is not None and hasattr(rd, "dims") and hasattr(ri, "dims") and len(rd.dims) == 2 and len(ri.dims) == 2
    c.prove("update.carried_roots_are_those_of_the_bordered_matrix", z3.And(
        rd.at_dims([k_, e]) == mk_sum(lambda t: ROOT.at([k_, t]) * ROOT.at([e, t]), r.t), ri.at_dims([k_, e]) == mk_sum(lambda t: IROOT.at([k_, t]) * IROOT.at([e, t]), r.t)) if okr else z3.BoolVal(False),
        keys=sorted(got))
    cc = None
    for kk, vv in memo.d.items():
        if "covar_cache" in str(kk):
            cc = vv
    okcc = cc is not None and hasattr(cc, "dims") and len(cc.dims) == 2
    ec = ivar("col")
    c.assume(z3.And(ec >= 0, ec < r.t))
    c.prove("update.new_covar_cache_is_the_inverse_root_of_the_bordered_matrix", z3.And(cc.dims[1].size == r.t, cc.at_dims([k_, ec]) == IROOT.at([k_, ec])) if okcc else z3.BoolVal(False))


@case("C04", clause="cache_update", name="bordered_system_lemma", expand=lambda ix: [()], replay=None, functions=[f"{PS}.get_fantasy_strategy"], timeout=1200)
def bordered_system_lemma(c):
    """lemma over the contracts of fantasy_strategy_update (Lean 4 / Mathlib, lean/Bordered.lean): for real matrices K, Kinv (n x n), U (m x n), S (m x m) with
    K Kinv = 1, K alpha = y and (S - U (Kinv U^T)) b = y_f - U alpha, the vector [alpha - (Kinv U^T) b ; b] solves [K U^T; U S] x = [y; y_f]"""
    c.ctx.assumptions.add("Lean 4.33 kernel and Mathlib are trusted for the lemma lean/Bordered.lean; it is stated over real matrices (floating-point rounding of the update is covered by the bounded tier only)")
    c.prove_lemma("update.bordered_update_solves_the_full_system", "Bordered.lean", "bordered_update")
