"""stubs.py -- callee stand-ins for modular verification.

A Stub is an object whose attributes / methods are given by the contract of the callee (fresh symbolic
results, argument recording).  The function under verification is real; its callees are represented by
their contracts -- exactly what "a caller is checked against the callee's contract, not its body" means.
"""
from __future__ import annotations

from engine.values import NONE, PyRaise, Undecided, V, VBuiltin, VExc


class Stub(V):
    kind = "stub"

    def __init__(self, name, attrs=None, methods=None, isa=()):
        self.name = name
        self.attrs = dict(attrs or {})
        self.methods = dict(methods or {})
        self.isa = tuple(isa)
        self.calls = []

    def isinstance_of(self, qualname):
        n = qualname.split(".")[-1]
        return n in self.isa or qualname in self.isa

    def py_getattr(self, it, ctx, name):
        if name in self.attrs:
            return self.attrs[name]
        if name in self.methods:
            fn = self.methods[name]

            def call(it2, ctx2, a, k, fn=fn, name=name):
                self.calls.append((name, list(a), dict(k)))
                return fn(*a, **k)

            return VBuiltin(f"{self.name}.{name}", call)
        raise PyRaise(VExc("AttributeError", f"{self.name} has no attribute {name}"))

    def py_setattr(self, it, ctx, name, v):
        self.attrs[name] = v

    def py_call(self, it, ctx, args, kwargs):
        if "__call__" in self.methods:
            self.calls.append(("__call__", list(args), dict(kwargs)))
            return self.methods["__call__"](*args, **kwargs)
        raise Undecided(f"call of stub {self.name}")

    def py_eq(self, it, ctx, other):
        return self is other

    def describe(self):
        return f"<stub {self.name}>"
