"""C16 -- missing observations (NaN policy) behave as if those observations were deleted (mask / fill logic; proof tier).

Functions under contract (real AST): settings.observation_nan_policy.{_get_observed, _fill_tensor},
likelihoods.gaussian_likelihood._GaussianLikelihoodBase.{expected_log_prob, log_marginal} under 'mask' and 'fill',
mlls.exact_marginal_log_likelihood.ExactMarginalLogLikelihood.forward under 'mask' (and the documented rejection of 'fill').

NaN model (engine/dom_elem.NANV, opt-in): NaN is a distinguished, otherwise unconstrained real; isnan(x) := x == NaN, nan_to_num replaces it.
NaN poisoning of arithmetic is not modelled -- "no NaN appears in any output" is checked by the bounded tier only.

Deletion semantics: a Gaussian restricted to the observed coordinates has the sub-vector of the mean and the sub-matrix of the covariance
(marginalisation; standard, cited), so "as if deleted" for the MLL is: log_prob is evaluated on (mean[obs], cov[obs, obs]) at y[obs]; for the
per-point terms of expected_log_prob / log_marginal it is: exactly the terms of the observed entries remain.
"""
from __future__ import annotations

import z3

from engine import dom_elem as E
from engine import dom_real
from engine.dom_elem import NANV, Dim, VTensor, ivar, sym_tensor
from engine.runner import case
from engine.values import FALSE, NONE, TRUE, PyRaise, VBool, VBuiltin, VDict, VList, VNum, VObj, VStr, VTuple
from contracts.C12_gaussian_likelihoods import homosk_setup, noise_at
from contracts.C15_objectives import module_obj
from contracts.dist_spec import make_mvn, size_tuple
from contracts.stubs import Stub

NP = "gpytorch.settings.observation_nan_policy"
GL = "gpytorch.likelihoods.gaussian_likelihood"
EM = "gpytorch.mlls.exact_marginal_log_likelihood.ExactMarginalLogLikelihood"


def nan_model(c):
    c.ctx.ghost["nan_model"] = True
    c.ctx.ghost["any_dim_as_predicate"] = True


def set_policy(c, pol):
    c.ctx.classattrs[(NP, "_global_value")] = VStr(pol)


@case("C16", clause="get_observed", expand=lambda ix: [(br, er) for br in (0, 1, 2) for er in (1, 2)], replay=lambda *a: replay_nan(*a), functions=[f"{NP}._get_observed"])
def get_observed(c, br, er):
    """observed[e] <=> no batch element has a NaN at event position e (the documented 'masked for the complete batch' rule); shape = event_shape"""
    it, ctx = c.it, c.ctx
    nan_model(c)
    bs = [c.size(f"B{q}").t for q in range(br)]
    es = [c.size(f"n{q}").t for q in range(er)]
    Y = sym_tensor("y", bs + es)
    res = it.call(ctx, c.func(f"{NP}._get_observed"), [Y, size_tuple(es)], {})
    c.prove("get_observed.shape", z3.And(z3.BoolVal(len(res.dims) == er), *[d.size == e for d, e in zip(res.dims, es)]) if len(res.dims) == er else z3.BoolVal(False))
    if len(res.dims) != er:
        return
    b = [ivar("b") for _ in bs]
    e = [ivar("e") for _ in es]
    for v, n in zip(b + e, bs + es):
        c.assume(z3.And(v >= 0, v < n))
    # the batch dims are flattened into one leading dim by the code: instantiate the facts at the flat batch index
    flat = z3.IntVal(0)
    for v, n in zip(b, bs):
        flat = flat * n + v
    c.instantiate_facts([[flat] + e])
    o = res.at(e)
    c.prove("get_observed.observed_implies_not_nan_in_any_batch_element", z3.Implies(o, Y.at(b + e) != NANV))
    if br == 0:
        c.prove("get_observed.missing_iff_nan", o == (Y.at(e) != NANV))
    else:
        bb = [z3.Int(f"qb{q}") for q in range(br)]
        rng = z3.And(*[z3.And(v >= 0, v < n) for v, n in zip(bb, bs)])
        c.prove("get_observed.not_observed_implies_some_nan", z3.Implies(z3.And(z3.Not(o), z3.ForAll(bb, z3.Implies(rng, Y.at(bb + e) != NANV))), z3.BoolVal(False)))


@case("C16", clause="fill_tensor", expand=lambda ix: [(1,), (2,)], replay=lambda *a: replay_nan(*a), functions=[f"{NP}._fill_tensor"])
def fill_tensor(c, rank):
    it, ctx = c.it, c.ctx
    nan_model(c)
    es = [c.size(f"n{q}").t for q in range(rank)]
    Y = sym_tensor("y", es)
    res = it.call(ctx, c.getattr(c.cls(NP), "_fill_tensor"), [Y], {})
    e = [ivar("e") for _ in es]
    for v, n in zip(e, es):
        c.assume(z3.And(v >= 0, v < n))
    fv = it.class_getattr(ctx, c.cls(NP), "_fill_value")
    c.prove("fill_tensor.value", res.at(e) == z3.If(Y.at(e) == NANV, E.to_real(fv.t), Y.at(e)))
    c.prove("fill_tensor.fill_value_is_finite_constant", z3.BoolVal(isinstance(fv, VNum) and z3.is_rational_value(z3.simplify(E.to_real(fv.t)))))


def observed_contract(c, Y, es):
    """callee contract of _get_observed (proved above): a boolean tensor OBS of the event shape with OBS[e] => y[b, e] is not NaN"""
    obs = sym_tensor("OBS", es, sort="bool")
    calls = []

    def hook(it_, ctx_, fi, args, kwargs):
        if not isinstance(fi, tuple) and fi.name == "_get_observed":
            calls.append(list(args))
            return obs
        return NotImplemented

    c.it.call_hooks.append(hook)
    return obs, calls


@case("C16", clause="likelihood_terms", expand=lambda ix: [(meth, pol, db) for meth in ("expected_log_prob", "log_marginal") for pol in ("mask", "fill") for db in (0, 1)],
      replay=lambda *a: replay_nan(*a), functions=[f"{GL}._GaussianLikelihoodBase.expected_log_prob", f"{GL}._GaussianLikelihoodBase.log_marginal"])
def likelihood_terms(c, meth, pol, db):
    """mask: the result holds exactly the terms of the observed entries (selected by the mask _get_observed returns for (target, event_shape));
    fill: the term of every missing entry is 0 and every other term is unchanged"""
    it, ctx = c.it, c.ctx
    nan_model(c)
    lik, dist, n, B = homosk_setup(c, 0, db)
    bs = [B] if db else []
    Y = sym_tensor("y", bs + [n])
    set_policy(c, pol)
    mv = c.real("min_variance")  # variances are read through MultivariateNormal.variance, which clamps at settings.min_variance
    c.assume(z3.And(mv.t > 0, mv.t < z3.RealVal("1e-4")))
    for f in ("_global_float_value", "_global_double_value", "_global_half_value"):
        ctx.classattrs[("gpytorch.settings.min_variance", f)] = mv
    obs, calls = observed_contract(c, Y, [n])
    res = it.call(ctx, c.getattr(lik, meth), [Y, dist], {})
    b = [ivar("b") for _ in bs]
    i = ivar("i")
    for v, e in zip(b + [i], bs + [n]):
        c.assume(z3.And(v >= 0, v < e))
    c.instantiate_facts([b + [i]])
    s2 = noise_at(c, lik, b[0] if b else None)
    m = dist.fields["loc"].at(b + [i])
    v0 = dist.fields["_covar"].at(b + [i, i])
    y = Y.at(b + [i])
    log2pi = dom_real.apply(ctx, "log", 2 * dom_real.pi(ctx))
    if meth == "expected_log_prob":
        v = z3.If(v0 < mv.t, mv.t, v0)
        term = -((y - m) * (y - m) + v) / s2 / 2 - dom_real.apply(ctx, "log", s2) / 2 - log2pi / 2
    else:
        tot0 = v0 + s2
        tot1 = z3.If(tot0 < mv.t, mv.t, tot0)
        tot = z3.If(tot1 < z3.RealVal("1e-8"), z3.RealVal("1e-8"), tot1)
        sd = dom_real.apply(ctx, "sqrt", tot)
        term = -((y - m) * (y - m)) / (2 * sd * sd) - dom_real.apply(ctx, "log", sd) - dom_real.apply(ctx, "log", dom_real.apply(ctx, "sqrt", 2 * dom_real.pi(ctx)))
    if pol == "mask":
        c.prove(f"{meth}.mask.one_get_observed_call_on_(target, event_shape)", z3.BoolVal(len(calls) == 1 and calls[0][0] is Y and isinstance(calls[0][1], VTuple) and len(calls[0][1].items) == 1)
                if calls else z3.BoolVal(False))
        if calls and len(calls[0][1].items) == 1:
            c.prove(f"{meth}.mask.event_shape_argument", calls[0][1].items[0].t == n)
        mk = res.meta.get("masked_by")
        c.prove(f"{meth}.mask.result_is_selected_by_the_observed_mask", z3.BoolVal(mk is not None))
        if mk is not None:
            c.prove(f"{meth}.mask.mask_is_observed", mk.at_dims([i]) == obs.at([i]))
        c.prove_identity(f"{meth}.mask.terms_of_observed_entries", res.at(b + [i]), term)
    else:
        c.prove(f"{meth}.fill.shape_kept", z3.BoolVal(len(res.dims) == len(bs) + 1))
        c.prove(f"{meth}.fill.missing_terms_are_zero", z3.Implies(y == NANV, res.at(b + [i]) == 0))
        ctx.assume(y != NANV)
        c.prove_identity(f"{meth}.fill.other_terms_unchanged", res.at(b + [i]), term)


@case("C16", clause="mll_mask", expand=lambda ix: [(br,) for br in (0, 1)], replay=lambda *a: replay_nan(*a), functions=[f"{EM}.forward"])
def mll_mask(c, br):
    """mask: log_prob is evaluated on the marginal restricted to the observed coordinates (mean[obs], cov[obs, obs]) at target[obs] -- the
    density of the data set with the missing observations deleted -- and divided by the TOTAL number of targets n; fill: rejected"""
    it, ctx = c.it, c.ctx
    nan_model(c)
    n, Bz = c.size("n"), c.size("B")
    bs = [Bz.t] if br else []
    fdist = make_mvn(c, "f", bs, n.t)
    out = make_mvn(c, "marg", bs, n.t)
    Y = sym_tensor("y", bs + [n.t])
    lp = sym_tensor("logprob", bs)
    lp0 = lp.frozen()
    lik = module_obj(c, f"{GL}.GaussianLikelihood", "likelihood")
    model = module_obj(c, "gpytorch.models.exact_gp.ExactGP", "model")
    log, built, masked = [], [], []

    def hook(it_, ctx_, fi, args, kwargs):
        if isinstance(fi, tuple):
            return NotImplemented
        if args and args[0] is lik and fi.name == "__call__":
            log.append(("likelihood", list(args[1:])))
            return out
        if fi.name == "log_prob" and args and isinstance(args[0], VObj) and args[0].cls.name == "MultivariateNormal":
            log.append(("log_prob", args[0], args[1]))
            return lp
        if fi.qualname == "gpytorch.distributions.multivariate_normal.MultivariateNormal.__init__":
            o = args[0]
            kw = dict(kwargs)
            mean = kw.get("mean", args[1] if len(args) > 1 else None)
            cov = kw.get("covariance_matrix", args[2] if len(args) > 2 else None)
            o.fields.update({"loc": mean, "_covar": cov, "_islazy": TRUE, "_validate_args": FALSE})
            built.append(o)
            return NONE
        return NotImplemented

    it.call_hooks.append(hook)

    def masked_linop(it_, ctx_, a, k):
        r = a[0].frozen()
        r.meta = dict(r.meta)
        r.meta["masked_rows_cols"] = (a[1], a[2])
        masked.append((a[0], a[1], a[2]))
        return r

    it.optable["linear_operator.operators.MaskedLinearOperator"] = masked_linop
    mll = module_obj(c, EM, "mll")
    mll.fields["_modules"].d["likelihood"] = lik
    mll.fields["_modules"].d["model"] = model
    obs, calls = observed_contract(c, Y, [n.t])
    set_policy(c, "mask")
    res = it.call(ctx, c.getattr(mll, "forward"), [fdist, Y], {})
    ok = [e[0] for e in log] == ["likelihood", "log_prob"] and len(built) == 1 and log[1][1] is built[0] and len(masked) == 1 and len(calls) == 1
    c.prove("mll.mask.structure(one marginal, one masked distribution, one log_prob)", z3.BoolVal(ok))
    if not ok:
        return
    c.prove("mll.mask.get_observed_on_(target, event_shape)", z3.And(z3.BoolVal(calls[0][0] is Y and len(calls[0][1].items) == 1), calls[0][1].items[0].t == n.t))
    d = built[0]
    i, j = ivar("i"), ivar("j")
    b = [ivar("b") for _ in bs]
    for v, e in zip(b + [i, j], bs + [n.t, n.t]):
        c.assume(z3.And(v >= 0, v < e))
    mean, cov, tgt = d.fields["loc"], d.fields["_covar"], log[1][2]
    base, rmask, cmask = masked[0]
    c.prove("mll.mask.covariance_is_the_marginal_covariance_masked_by_observed_on_both_sides",
            z3.And(z3.BoolVal(base is out.fields["_covar"] and cov.meta.get("masked_rows_cols") is not None), rmask.at_dims([i]) == obs.at([i]), cmask.at_dims([j]) == obs.at([j]),
                   z3.BoolVal(len(rmask.dims) == 1 and len(cmask.dims) == 1)))
    for tag, t_, src in (("mean", mean, out.fields["loc"]), ("target", tgt, Y)):
        mk = t_.meta.get("masked_by")
        c.prove(f"mll.mask.{tag}_selected_by_observed", z3.And(mk.at_dims([i]) == obs.at([i]), t_.at(b + [i]) == src.at(b + [i])) if mk is not None else z3.BoolVal(False))
    c.prove("mll.mask.divided_by_total_number_of_targets", res.at(b) == lp0.at(b) / z3.ToReal(n.t))


@case("C16", clause="mll_mask", name="mll_fill_rejected", expand=lambda ix: [()], replay=lambda *a: replay_nan(*a), functions=[f"{EM}.forward"])
def mll_fill_rejected(c):
    it, ctx = c.it, c.ctx
    n = c.size("n")
    fdist, out = make_mvn(c, "f", [], n.t), make_mvn(c, "marg", [], n.t)
    Y = sym_tensor("y", [n.t])
    lik = module_obj(c, f"{GL}.GaussianLikelihood", "likelihood")
    model = module_obj(c, "gpytorch.models.exact_gp.ExactGP", "model")
    it.call_hooks.append(lambda it_, ctx_, fi, args, kwargs: out if (not isinstance(fi, tuple) and args and args[0] is lik and fi.name == "__call__") else NotImplemented)
    mll = module_obj(c, EM, "mll")
    mll.fields["_modules"].d["likelihood"] = lik
    mll.fields["_modules"].d["model"] = model
    set_policy(c, "fill")
    exc = c.raises(lambda: it.call(ctx, c.getattr(mll, "forward"), [fdist, Y], {}))
    c.prove("mll.fill.rejected_with_ValueError", z3.BoolVal(exc is not None and exc.clsname == "ValueError"))


def replay_nan(model, params, clause, info):
    from bounded import C16_patterns
    import json
    import os
    import re
    r = C16_patterns.run("quick", 0)
    kf = json.load(open(os.path.join(os.path.dirname(os.path.dirname(os.path.abspath(__file__))), "known_findings.json")))
    pats = [re.compile(f["match"]) for f in kf["findings"] if f["property"] == "C16"]
    bad = [v for v in r["violations"] if not any(p.fullmatch("bounded:" + v["key"]) for p in pats)]
    return {"violates": bool(bad), "detail": "; ".join(f"{v['key']}: {v['detail']}" for v in bad[:5])[:700] or "NaN patterns agree with deletion on the real code (known findings aside)",
            "entry": {"module": "contracts.C16_nan_policy", "function": "replay_nan", "args": [model, list(params), clause, info]}}


# ------------------------------------------------------------------ prediction mean under mask / fill ----------------------------
PS = "gpytorch.models.exact_prediction_strategies.DefaultPredictionStrategy"


@case("C16", clause="posterior_mean_mask", expand=lambda ix: [()], replay=lambda *a: replay_nan(*a), functions=[f"{PS}._mean_cache", f"{PS}.exact_predictive_mean"])
def posterior_mean_mask(c):
    """mask: mean_cache holds, at the observed positions, SOLVE(A[obs, obs], (y - m)[obs]) (the solve of the training system with the missing rows and
    columns DELETED; A = covariance of likelihood(train prior)) and NaN elsewhere; the predictive mean is m* + K*x[:, obs] @ mean_cache[obs] -- the
    conditional mean on the data set without the missing observations (kernel entries depend on pairs of inputs only, so A[obs, obs] IS the training
    covariance of the deleted data set)"""
    it, ctx = c.it, c.ctx
    nan_model(c)
    n, s = c.size("n"), c.size("s")
    from contracts.dist_spec import make_mvn
    prior = make_mvn(c, "train_prior", [], n.t)
    y = sym_tensor("y", [n.t])
    M = sym_tensor("marginal_mean", [n.t])
    A = sym_tensor("A", [n.t, n.t], is_linop=True, symmetric=True)
    A.meta["evaluate_kernel_is_self"] = True
    marg = Stub("likelihood(train_prior)", attrs={"loc": M, "mean": M, "lazy_covariance_matrix": A}, isa=("MultivariateNormal",))
    lik = Stub("likelihood", methods={"__call__": lambda *a, **k: marg}, isa=("Likelihood",))
    obs, calls = observed_contract(c, y, [n.t])
    SOL = sym_tensor("SOLVE_masked", [n.t])
    SOL.meta = {"masked_by": obs, "uf": SOL.meta.get("uf")}
    solves = []

    def masked_linop(it_, ctx_, a, k):
        base, rm, cm = a
        def solve(rhs):
            solves.append((base, rm, cm, rhs))
            return Stub("solve_result", methods={"squeeze": lambda *d: SOL})
        return Stub("MaskedLinearOperator(A, obs, obs)", methods={"solve": solve}, isa=("LinearOperator",))

    it.optable["linear_operator.operators.MaskedLinearOperator"] = masked_linop
    ci = it.index.get_class(PS)
    o = VObj(ci, label="DefaultPredictionStrategy")
    o.fields.update({"_train_shape": size_tuple([n.t]), "train_prior_dist": prior, "train_labels": y, "likelihood": lik, "train_inputs": VList([sym_tensor("X", [n.t, c.size("d").t])]),
                     "_last_test_train_covar": NONE})
    c.ctx.classattrs[("gpytorch.settings.detach_test_caches", "_state")] = TRUE
    cache = it.call(ctx, c.getattr(o, "_mean_cache"), [VStr("mask")], {})
    i = ivar("i")
    c.assume(z3.And(i >= 0, i < n.t))
    ok = len(solves) == 1
    c.prove("mean_cache.mask.one_solve_of_the_masked_training_system", z3.BoolVal(ok))
    if not ok:
        return
    base, rm, cm, rhs = solves[0]
    c.prove("mean_cache.mask.system_is_A_masked_by_observed_on_both_sides", z3.And(z3.BoolVal(base is A), rm.at_dims([i]) == obs.at([i]), cm.at_dims([i]) == obs.at([i])))
    mk = rhs.meta.get("masked_by")
    c.prove("mean_cache.mask.rhs_is_(y - m)_at_the_observed_positions", z3.And(z3.BoolVal(mk is not None and rhs.meta.get("masked_at") == 0 and len(rhs.dims) == 2), mk.at_dims([i]) == obs.at([i]),
                                                                            rhs.at([i, z3.IntVal(0)]) == y.at([i]) - M.at([i])) if mk is not None and len(rhs.dims) == 2 else z3.BoolVal(False))
    c.prove("mean_cache.mask.value", z3.And(z3.BoolVal(len(cache.dims) == 1), cache.dims[0].size == n.t, cache.at([i]) == z3.If(obs.at([i]), SOL.at([i]), NANV)) if len(cache.dims) == 1 else z3.BoolVal(False))
    # prediction: the observed mask is re-derived from the NaN pattern of the cache (same callee), the product runs over observed columns only
    it.attr_hooks.append(lambda it_, ctx_, obj, name: cache if (obj is o and name == "mean_cache") else None)
    set_policy(c, "mask")
    tm = sym_tensor("test_mean", [s.t])
    T = sym_tensor("test_train_covar", [s.t, n.t], is_linop=True)
    it.optable.pop("linear_operator.operators.MaskedLinearOperator", None)
    from engine import optable_torch as _ot
    it.optable["linear_operator.operators.MaskedLinearOperator"] = _ot.T["linear_operator.operators.MaskedLinearOperator"]
    it.optable["linear_operator.to_linear_operator"] = lambda it_, ctx_, a, k: a[0]
    del calls[:]
    res = it.call(ctx, c.getattr(o, "exact_predictive_mean"), [tm, T], {})
    j = ivar("j")
    c.assume(z3.And(j >= 0, j < s.t))
    c.prove("predictive_mean.mask.observed_mask_taken_from_the_cache", z3.BoolVal(len(calls) == 1 and calls[0][0] is cache))
    from engine.dom_elem import mk_sum
    want = tm.at([j]) + mk_sum(lambda k: z3.If(obs.at([k]), T.at([j, k]), z3.RealVal(0)) * cache.at([k]), n.t)
    c.prove("predictive_mean.mask.is_test_mean_plus_sum_over_observed_columns", z3.And(z3.BoolVal(len(res.dims) == 1), res.dims[0].size == s.t, res.at([j]) == want) if len(res.dims) == 1 else z3.BoolVal(False))


@case("C16", clause="posterior_mean_fill", expand=lambda ix: [()], replay=lambda *a: replay_nan(*a), functions=[f"{PS}.exact_predictive_mean"])
def posterior_mean_fill(c):
    """fill: the columns of K*x belonging to missing entries (NaN in the mean cache) are zeroed and the NaNs replaced by the finite fill value, so the
    product is the sum over the observed columns only: m* + sum_{k observed} K*x[j, k] mean_cache[k]"""
    it, ctx = c.it, c.ctx
    nan_model(c)
    n, s = c.size("n"), c.size("s")
    ci = it.index.get_class(PS)
    o = VObj(ci, label="DefaultPredictionStrategy")
    cache = sym_tensor("mean_cache", [n.t])
    it.attr_hooks.append(lambda it_, ctx_, obj, name: cache if (obj is o and name == "mean_cache") else None)
    set_policy(c, "fill")
    tm = sym_tensor("test_mean", [s.t])
    T = sym_tensor("test_train_covar", [s.t, n.t])
    res = it.call(ctx, c.getattr(o, "exact_predictive_mean"), [tm, T], {})
    j = ivar("j")
    c.assume(z3.And(j >= 0, j < s.t))
    from engine.dom_elem import mk_sum
    fv = it.class_getattr(ctx, c.cls(NP), "_fill_value")
    want = tm.at([j]) + mk_sum(lambda k: (T.at([j, k]) * z3.If(cache.at([k]) == NANV, z3.RealVal(0), z3.RealVal(1))) * z3.If(cache.at([k]) == NANV, E.to_real(fv.t), cache.at([k])), n.t)
    c.prove("predictive_mean.fill.is_test_mean_plus_sum_over_non_missing_columns", z3.And(z3.BoolVal(len(res.dims) == 1), res.dims[0].size == s.t, res.at([j]) == want) if len(res.dims) == 1 else z3.BoolVal(False))


@case("C16", clause="posterior_mean_fill", name="mean_cache_fill", expand=lambda ix: [(br,) for br in (0, 1)], replay=lambda *a: replay_nan(*a), functions=[f"{PS}._mean_cache"])
def mean_cache_fill(c, br):
    """fill, per batch element: the training system that is solved has the rows and columns of THAT element's missing entries zeroed off the diagonal
    (diagonal kept, so the system decouples: the observed block is A[obs, obs], the missing block is diagonal), its right-hand side is y - m with the
    missing entries replaced by the fill value, and the cache is NaN (or 0: either contributes nothing under exact_predictive_mean's contract above) at
    that element's missing entries and the solution elsewhere -- hence the observed entries of the
    cache are SOLVE(A[obs, obs], (y - m)[obs]), the deletion answer.  LinearOperator.solve is a callee contract.
    IEEE fact assumed (the NaN model does not poison arithmetic): y - m is NaN exactly where y is (m finite)."""
    it, ctx = c.it, c.ctx
    nan_model(c)
    n = c.size("n")
    bs = [c.size(f"B{q}").t for q in range(br)]
    from contracts.dist_spec import make_mvn
    prior = make_mvn(c, "train_prior", bs, n.t)
    y = sym_tensor("y", bs + [n.t])
    M = sym_tensor("marginal_mean", bs + [n.t])
    A = sym_tensor("A", bs + [n.t, n.t], is_linop=True)
    A.meta["evaluate_kernel_is_self"] = True
    marg = Stub("likelihood(train_prior)", attrs={"loc": M, "mean": M, "lazy_covariance_matrix": A}, isa=("MultivariateNormal",))
    lik = Stub("likelihood", methods={"__call__": lambda *a, **k: marg}, isa=("Likelihood",))
    SOL = sym_tensor("SOLVE_filled", bs + [n.t, z3.IntVal(1)])
    solves = []

    def solve(t, it_, ctx_, a, k):
        solves.append((t, a[0]))
        return SOL

    it.optable["tensor_method.solve"] = solve
    ci = it.index.get_class(PS)
    o = VObj(ci, label="DefaultPredictionStrategy")
    o.fields.update({"_train_shape": size_tuple(bs + [n.t]), "train_prior_dist": prior, "train_labels": y, "likelihood": lik,
                     "train_inputs": VList([sym_tensor("X", bs + [n.t, c.size("d").t])]), "_last_test_train_covar": NONE})
    c.ctx.classattrs[("gpytorch.settings.detach_test_caches", "_state")] = TRUE
    b = [ivar("b") for _ in bs]
    i, j = ivar("i"), ivar("j")
    for v, s_ in zip(b + [i, j], bs + [n.t, n.t]):
        c.assume(z3.And(v >= 0, v < s_))
    for q in (i, j):
        c.assume((y.at(b + [q]) - M.at(b + [q]) == NANV) == (y.at(b + [q]) == NANV), "IEEE arithmetic: y - m is NaN exactly where y is, for a finite marginal mean m (the NaN model does not poison arithmetic)")
    cache = it.call(ctx, c.getattr(o, "_mean_cache"), [VStr("fill")], {})
    ok = len(solves) == 1
    c.prove("mean_cache.fill.one_solve", z3.BoolVal(ok))
    if not ok:
        return
    mat, rhs = solves[0]
    miss = lambda q: y.at(b + [q]) == NANV
    okm = len(mat.dims) == br + 2
    c.prove("mean_cache.fill.system_has_this_elements_missing_rows_and_columns_zeroed_off_the_diagonal",
            mat.at_dims(b + [i, j]) == z3.If(i == j, A.at(b + [i, i]), z3.If(z3.Or(miss(i), miss(j)), z3.RealVal(0), A.at(b + [i, j]))) if okm else z3.BoolVal(False))
    fv = it.class_getattr(ctx, c.cls(NP), "_fill_value")
    okr = len(rhs.dims) == br + 2
    c.prove("mean_cache.fill.rhs_is_y_minus_m_with_the_missing_entries_filled", z3.And(rhs.dims[-1].size == 1, rhs.at_dims(b + [i, z3.IntVal(0)]) == z3.If(miss(i), E.to_real(fv.t), y.at(b + [i]) - M.at(b + [i]))) if okr else z3.BoolVal(False))
    okc = len(cache.dims) == br + 1
    c.prove("mean_cache.fill.value", z3.And(cache.dims[-1].size == n.t, z3.If(miss(i), z3.Or(cache.at_dims(b + [i]) == NANV, cache.at_dims(b + [i]) == 0), cache.at_dims(b + [i]) == SOL.at(b + [i, z3.IntVal(0)]))) if okc else z3.BoolVal(False))
