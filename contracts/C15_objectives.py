"""C15 -- variational objectives equal their definition (assembly and scaling), NGD step.

Functions under contract (real AST): _ApproximateMarginalLogLikelihood.forward, VariationalELBO._log_likelihood_term,
PredictiveLogLikelihood._log_likelihood_term, Module.named_priors / _extract_named_priors, Module.added_loss_terms /
_extract_named_added_loss_terms, NGD.step.
Callee contracts (stubs): likelihood.expected_log_prob / log_marginal return the per-point terms l_i (C12/C13 prove what
they are), variational_strategy.kl_divergence() returns KL(q(u)||p(u)) (C14), prior.log_prob, AddedLossTerm.loss.

  objective = (1/B) sum_i l_i  -  (beta/N) KL  +  (1/N) sum_p sum_e logprior_p[e]  -  sum_k added_k
for symbolic B (minibatch size), N, beta, any number of priors P in 0..3 and added losses K in 0..2 (enumerated),
priors registered on the model itself or on a sub-module; combine_terms=False returns exactly the four terms.
The bound / optimum claims (ELBO <= evidence, Titsias, one NGD step) are theorems about values of compositions and are
checked numerically in the bounded tier only.
"""
from __future__ import annotations

import itertools

import z3

from engine import dom_elem as E
from engine.dom_elem import Dim, VTensor, ivar, mk_sum, sym_tensor
from engine.runner import case
from engine.values import FALSE, NONE, TRUE, VBool, VDict, VList, VNum, VObj, VStr, VTuple
from contracts.dist_spec import make_mvn
from contracts.stubs import Stub

AM = "gpytorch.mlls._approximate_mll._ApproximateMarginalLogLikelihood"
CLS = {"VariationalELBO": "gpytorch.mlls.variational_elbo.VariationalELBO",
       "PredictiveLogLikelihood": "gpytorch.mlls.predictive_log_likelihood.PredictiveLogLikelihood"}


def module_obj(c, qual, label, **fields):
    ci = c.it.index.get_class(qual)
    o = VObj(ci, label=label)
    o.fields.update({"_parameters": VDict(), "_buffers": VDict(), "_modules": VDict(), "_priors": VDict(), "_constraints": VDict(),
                     "_added_loss_terms": VDict(), "training": TRUE})
    for k, v in fields.items():
        o.fields[k] = v
    return o


def build(c, clsname, P, K, combine, prior_on_child):
    it, ctx = c.it, c.ctx
    B = c.size("B")
    N = c.real("N")
    beta = c.real("beta")
    c.assume(z3.And(N.t > 0, beta.t > 0))
    ell = sym_tensor("ell", [B.t])
    kl = sym_tensor("kl", [])
    # the likelihood is a real module object (so that the real named_priors traversal visits it); its two entry
    # points are represented by their contracts: they return the per-point terms l_i
    lik = module_obj(c, "gpytorch.likelihoods.gaussian_likelihood.GaussianLikelihood", "likelihood")
    lik.calls = []

    def hook(it_, ctx_, fi, args, kwargs):
        if not isinstance(fi, tuple) and fi.name in ("expected_log_prob", "log_marginal") and args and args[0] is lik:
            lik.calls.append((fi.name, list(args[1:]), dict(kwargs)))
            return ell
        return NotImplemented

    it.call_hooks.append(hook)
    vs = Stub("variational_strategy", methods={"kl_divergence": lambda: kl})
    model = module_obj(c, "gpytorch.models.approximate_gp.ApproximateGP", "model")
    child = module_obj(c, "gpytorch.kernels.rbf_kernel.RBFKernel", "child")
    model.fields["_modules"].d["covar_module"] = child
    model.fields["variational_strategy"] = vs
    priors = []
    for p in range(P):
        dp = c.size(f"dp{p}")
        lp = sym_tensor(f"logprior{p}", [dp.t])
        owner = child if (prior_on_child and p == P - 1) else model
        value = sym_tensor(f"pval{p}", [dp.t])
        prior = Stub(f"prior{p}", methods={"log_prob": (lambda x, lp=lp, value=value: lp if x is value else sym_tensor("wrong_closure_arg", [dp.t]))}, isa=("Prior",))
        seen_owner = []
        closure = Stub(f"closure{p}", methods={"__call__": (lambda m, value=value, owner=owner, seen=seen_owner: (seen.append(m), value)[1])})
        owner.fields["_priors"].d[f"p{p}_prior"] = VTuple([prior, closure, NONE])
        priors.append((lp, dp.t, owner, seen_owner))
    losses = []
    for k in range(K):
        lt = sym_tensor(f"added{k}", [])
        term = Stub(f"added_loss{k}", methods={"loss": lambda *a, lt=lt: lt}, isa=("AddedLossTerm",))
        (model if k == 0 else child).fields["_added_loss_terms"].d[f"term{k}"] = term
        losses.append(lt)
    mll = module_obj(c, CLS[clsname], "mll", combine_terms=VBool(combine), num_data=N, beta=beta)
    mll.fields["_modules"].d["likelihood"] = lik
    mll.fields["_modules"].d["model"] = model
    qf = make_mvn(c, "qf", [], B.t)
    y = sym_tensor("y", [B.t])
    return mll, lik, qf, y, ell, kl, priors, losses, B.t, N.t, beta.t


def cases(ix):
    out = []
    for cl in CLS:
        for P, K in itertools.product((0, 1, 2, 3), (0, 1, 2)):
            for combine in (True, False):
                out.append((cl, P, K, combine, P >= 2))
    return out


@case("C15", clause="objective.assembly", expand=cases, replay=lambda *a: replay_objective(*a),
      functions=[f"{AM}.forward", "gpytorch.mlls.variational_elbo.VariationalELBO._log_likelihood_term",
                 "gpytorch.mlls.predictive_log_likelihood.PredictiveLogLikelihood._log_likelihood_term", "gpytorch.module.Module.named_priors",
                 "gpytorch.module._extract_named_priors", "gpytorch.module.Module.added_loss_terms", "gpytorch.module._extract_named_added_loss_terms"])
def objective(c, clsname, P, K, combine, prior_on_child):
    it, ctx = c.it, c.ctx
    mll, lik, qf, y, ell, kl, priors, losses, B, N, beta = build(c, clsname, P, K, combine, prior_on_child)
    res = it.call(ctx, c.getattr(mll, "forward"), [qf, y], {})
    want_entry = "expected_log_prob" if clsname == "VariationalELBO" else "log_marginal"
    c.prove("objective.uses_documented_likelihood_term", z3.BoolVal([x[0] for x in lik.calls] == [want_entry]))
    a0 = lik.calls[0][1]
    c.prove("objective.likelihood_args", z3.BoolVal(a0[0] is y and a0[1] is qf))
    for p, (lp, dp, owner, seen) in enumerate(priors):
        c.prove(f"objective.prior{p}.closure_on_owning_module", z3.BoolVal(len(seen) == 1 and seen[0] is owner))
    ll = mk_sum(lambda i: ell.at([i]), B) / z3.ToReal(B)
    klt = kl.at([]) * beta / N
    lpt = z3.RealVal(0)
    for lp, dp, owner, seen in priors:
        lpt = lpt + mk_sum(lambda e, lp=lp: lp.at([e]), dp) / N
    adt = z3.RealVal(0)
    for lt in losses:
        adt = adt + lt.at([])
    if combine:
        c.prove("objective.value", res.at([]) == ll - klt + lpt - adt)
    else:
        items = res.items
        c.prove("objective.tuple_len", z3.BoolVal(len(items) == (4 if K else 3)))
        c.prove("objective.term.log_likelihood", items[0].at([]) == ll)
        c.prove("objective.term.kl", items[1].at([]) == klt)
        c.prove("objective.term.log_prior", items[2].at([]) == lpt)
        if K:
            c.prove("objective.term.added_loss", items[3].at([]) == adt)


@case("C15", clause="ngd.step", functions=["gpytorch.optim.ngd.NGD.step"], replay=lambda *a: replay_ngd(*a),
      expand=lambda ix: [(1,), (2,), (3,)])
def ngd_step(c, nparams):
    """p <- p - lr * N * grad for every parameter that has a gradient; parameters without a gradient are untouched"""
    it, ctx = c.it, c.ctx
    lr, N = c.real("lr"), c.real("N")
    d = c.size("d")
    ps, olds, grads = [], [], []
    for k in range(nparams):
        p = sym_tensor(f"p{k}", [d.t])
        p.meta["is_parameter"] = True
        has_grad = (k != 1)
        g = sym_tensor(f"g{k}", [d.t]) if has_grad else NONE
        p.meta["grad"] = g
        olds.append(p.frozen())
        grads.append(g)
        ps.append(p)
    ci = it.index.get_class("gpytorch.optim.ngd.NGD")
    o = VObj(ci, label="opt")
    o.fields.update({"num_data": N, "param_groups": VList([VDict({"params": VList(ps), "lr": lr})])})
    it.call(ctx, c.getattr(o, "step"), [], {})
    (i,) = [ivar("i")]
    c.assume(z3.And(i >= 0, i < d.t))
    for k, (p, old, g) in enumerate(zip(ps, olds, grads)):
        if g is NONE:
            c.prove(f"ngd.untouched[{k}]", p.at([i]) == old.at([i]))
        else:
            c.prove(f"ngd.update[{k}]", p.at([i]) == old.at([i]) - lr.t * N.t * g.at([i]))
    c.prove("ngd.same_cells", z3.BoolVal(all(a is b for a, b in zip(o.fields["param_groups"].items[0].d["params"].items, ps))))


# ------------------------------------------------------------------------------ replay -----------------
def replay_objective(model, params, clause, info):
    """real objects: SVGP with P Gamma priors (one on a sub-module) and K added-loss terms, minibatch; compare with the
    hand-written definition"""
    import torch
    import gpytorch
    clsname, P, K, combine, on_child = params
    torch.manual_seed(0)

    class M(gpytorch.models.ApproximateGP):
        def __init__(self, Z):
            vd = gpytorch.variational.CholeskyVariationalDistribution(Z.size(0))
            vs = gpytorch.variational.VariationalStrategy(self, Z, vd, learn_inducing_locations=True)
            super().__init__(vs)
            self.mean_module = gpytorch.means.ConstantMean()
            kw = {}
            self.covar_module = gpytorch.kernels.ScaleKernel(gpytorch.kernels.RBFKernel())

        def forward(self, x):
            return gpytorch.distributions.MultivariateNormal(self.mean_module(x), self.covar_module(x))

    class Extra(gpytorch.mlls.AddedLossTerm):
        def __init__(self, v):
            self.v = v

        def loss(self, *a):
            return torch.tensor(self.v, dtype=torch.double)

    X = torch.linspace(0, 1, 40, dtype=torch.double).unsqueeze(-1)
    Y = torch.sin(6 * X).squeeze(-1)
    m = M(X[::8].clone()).double()
    lik = gpytorch.likelihoods.GaussianLikelihood().double()
    targets = [(m.covar_module, "outputscale"), (m.covar_module.base_kernel, "lengthscale"), (m.mean_module, "constant")][:P]
    for mod, name in targets:
        mod.register_prior(name + "_prior", gpytorch.priors.NormalPrior(0.5, 2.0), name)
    if K >= 1:
        m.register_added_loss_term("t0")
        m.update_added_loss_term("t0", Extra(0.37))
    if K >= 2:
        m.covar_module.register_added_loss_term("t1")
        m.covar_module.update_added_loss_term("t1", Extra(1.21))
    N, beta = 40, 0.3
    cls = getattr(gpytorch.mlls, clsname)
    mll = cls(lik, m, num_data=N, beta=beta, combine_terms=combine)
    xb, yb = X[:8], Y[:8]
    m.train(); lik.train()
    out = m(xb)
    got = mll(out, yb)
    term = (lik.expected_log_prob(yb, out) if clsname == "VariationalELBO" else lik.log_marginal(yb, out)).sum(-1) / 8
    kl = m.variational_strategy.kl_divergence() * beta / N
    lp = sum(mod._priors[name + "_prior"][0].log_prob(getattr(mod, name)).sum() for mod, name in targets) / N if P else torch.tensor(0.0, dtype=torch.double)
    ad = torch.tensor(0.37 * (K >= 1) + 1.21 * (K >= 2), dtype=torch.double)
    want = term - kl + lp - ad
    if combine:
        ok = torch.allclose(got, want, atol=1e-9)
        detail = f"{clsname}: value {got.item():.9f} vs definition {want.item():.9f}"
    else:
        parts = [term, kl, lp] + ([ad] if K else [])
        ok = len(got) == len(parts) and all(torch.allclose(a, b, atol=1e-9) for a, b in zip(got, parts))
        detail = f"{clsname} (terms): {[float(x) for x in got]} vs {[float(x) for x in parts]}"
    return {"violates": not ok, "detail": detail,
            "entry": {"module": "contracts.C15_objectives", "function": "replay_objective", "args": [model, list(params), clause, info]}}


def replay_ngd(model, params, clause, info):
    import torch
    from gpytorch.optim import NGD
    (k,) = params
    ps = [torch.nn.Parameter(torch.randn(3, dtype=torch.double)) for _ in range(k)]
    for j, p in enumerate(ps):
        if j != 1:
            p.grad = torch.randn(3, dtype=torch.double)
    old = [p.detach().clone() for p in ps]
    opt = NGD(ps, num_data=17, lr=0.25)
    opt.step()
    ok = all(torch.allclose(p.detach(), o - 0.25 * 17 * p.grad) if p.grad is not None else torch.equal(p.detach(), o) for p, o in zip(ps, old))
    return {"violates": not ok, "detail": f"NGD.step on {k} parameter(s): {ok}",
            "entry": {"module": "contracts.C15_objectives", "function": "replay_ngd", "args": [model, list(params), clause, info]}}


def replay_c15_bounded(model, params, clause, info):
    from bounded import C15_bounds
    r = C15_bounds.run("quick", 0)
    bad = r["violations"]
    return {"violates": bool(bad), "detail": "; ".join(f"{v['key']}: {v['detail']}" for v in bad[:5])[:700] or "ELBO / natural-gradient checks pass on the real code",
            "entry": {"module": "contracts.C15_objectives", "function": "replay_c15_bounded", "args": [model, list(params), clause, info]}}


@case("C15", clause="natural_gradient_backward", name="phi_for_cholesky", expand=lambda ix: [(0,), (1,), (2,)], replay=lambda *a: replay_c15_bounded(*a),
      functions=["gpytorch.variational.natural_variational_distribution._phi_for_cholesky_"])
def phi_for_cholesky(c, br):
    """the natural-gradient step of the property goes through the custom backward of the natural parameterisation; its Cholesky-derivative helper must be
    Phi(A) = tril(A) with the diagonal halved for EVERY batch element (the C19 contract, shared): a helper that is right for un-batched input only breaks
    'one step reaches the optimum' for batched variational distributions"""
    from contracts import C19_backward as c19
    return c19.phi_for_cholesky(c, br)


@case("C15", clause="objective.multitask_minibatch_size", name="objective_multitask", expand=lambda ix: [(cl,) for cl in CLS], replay=lambda *a: replay_objective_multitask(*a),
      functions=[f"{AM}.forward"])
def objective_multitask(c, clsname):
    """a multitask q(f) has event shape (B, T): the likelihood term is still averaged over the B minibatch POINTS (not over the T tasks):
    value = (1/B) sum_i l_i - (beta/N) KL  with l_i the per-point terms of the likelihood's contract"""
    from contracts.dist_spec import make_mtmvn
    it, ctx = c.it, c.ctx
    mll, lik, _qf, _y, ell, kl, priors, losses, B, N, beta = build(c, clsname, 0, 0, True, False)
    T = c.size("T")
    qf = make_mtmvn(c, "qf_mt", [], B, T.t, True)
    y = sym_tensor("y_mt", [B, T.t])
    res = it.call(ctx, c.getattr(mll, "forward"), [qf, y], {})
    c.prove("objective_mt.likelihood_term_once_on_the_multitask_arguments", z3.BoolVal(len(lik.calls) == 1 and lik.calls[0][1][0] is y and lik.calls[0][1][1] is qf))
    ll = mk_sum(lambda i: ell.at([i]), B) / z3.ToReal(B)
    c.prove("objective_mt.value_divides_by_the_number_of_points", res.at([]) == ll - kl.at([]) * beta / N)


def replay_objective_multitask(model, params, clause, info):
    """real multitask SVGP (independent multitask strategy, 3 tasks, 5 points): objective vs (1/B) sum of the likelihood's own per-point terms - beta KL / N"""
    import torch
    import gpytorch
    (clsname,) = params
    torch.manual_seed(0)
    T, m, B, N = 3, 4, 5, 40
    X, Y = torch.rand(B, 1, dtype=torch.double), torch.randn(B, T, dtype=torch.double)

    class G(gpytorch.models.ApproximateGP):
        def __init__(self):
            Z = torch.rand(T, m, 1, dtype=torch.double)
            vd = gpytorch.variational.CholeskyVariationalDistribution(m, batch_shape=torch.Size([T]))
            vs = gpytorch.variational.IndependentMultitaskVariationalStrategy(gpytorch.variational.VariationalStrategy(self, Z, vd, learn_inducing_locations=True), num_tasks=T)
            super().__init__(vs)
            self.mean_module = gpytorch.means.ConstantMean(batch_shape=torch.Size([T]))
            self.covar_module = gpytorch.kernels.RBFKernel(batch_shape=torch.Size([T]))

        def forward(self, x):
            return gpytorch.distributions.MultivariateNormal(self.mean_module(x), self.covar_module(x))

    g = G().double()
    lik = gpytorch.likelihoods.MultitaskGaussianLikelihood(num_tasks=T).double()
    cls = {"VariationalELBO": gpytorch.mlls.VariationalELBO, "PredictiveLogLikelihood": gpytorch.mlls.PredictiveLogLikelihood}.get(clsname)
    if cls is None:
        cls = getattr(gpytorch.mlls, clsname)
    obj = cls(lik, g, num_data=N, beta=0.7)
    g.train()
    lik.train()
    with torch.no_grad():
        qf = g(X)
        got = obj(qf, Y)
        term = lik.expected_log_prob(Y, qf) if clsname == "VariationalELBO" else lik.log_marginal(Y, qf)
        want = term.sum() / B - 0.7 * g.variational_strategy.kl_divergence() / N
    bad = not torch.allclose(got, want, atol=1e-9)
    return {"violates": bool(bad), "detail": f"{clsname} on a {T}-task q(f) over {B} points: {got.item():.6f} vs (1/B) sum l_i - beta KL / N = {want.item():.6f}",
            "entry": {"module": "contracts.C15_objectives", "function": "replay_objective_multitask", "args": [model, list(params), clause, info]}}
