"""dist_spec.py -- abstract views (spec functions) of MultivariateNormal / MultitaskMultivariateNormal.

Abstract view of a multitask distribution over n points and t tasks (class docstring):
  flat(i, a) = i*t + a  if interleaved ("block-diagonal w.r.t. inter-task covariances for each
  observation") else a*n + i;   Mean(b, i, a) = loc(b, flat(i,a));
  Cov(b, (i,a), (j,c)) = covar(b, flat(i,a), flat(j,c)).
The spec never looks at how the code computes an index; it only uses this definition and the
op-table meaning of torch indexing applied to *coordinate tensors*.
"""
from __future__ import annotations

import z3

from engine import dom_elem as E
from engine.dom_elem import Dim, VTensor, ivar, same_extent, sym_tensor
from engine.values import FALSE, NONE, TRUE, VBool, VNum, VObj, VTuple

MVN = "gpytorch.distributions.multivariate_normal.MultivariateNormal"
MTMVN = "gpytorch.distributions.multitask_multivariate_normal.MultitaskMultivariateNormal"


def size_tuple(terms):
    return VTuple([VNum(t) for t in terms], is_size=True)


def make_mvn(c, name, batch, N, lazy=True):
    """an arbitrary lazy MultivariateNormal object in its representation (fields seated directly)"""
    ci = c.it.index.get_class(MVN)
    loc = sym_tensor(f"{name}_loc", list(batch) + [N])
    cov = sym_tensor(f"{name}_cov", list(batch) + [N, N], is_linop=True, symmetric=True)
    o = VObj(ci, label=name)
    o.fields.update({
        "loc": loc, "_covar": cov, "_islazy": TRUE, "_validate_args": FALSE,
        "_MultivariateNormal__unbroadcasted_scale_tril": NONE,
        "_batch_shape": size_tuple(batch), "_event_shape": size_tuple([N]),
    })
    return o


def make_mtmvn(c, name, batch, n, t, interleaved):
    ci = c.it.index.get_class(MTMVN)
    N = n * t
    loc = sym_tensor(f"{name}_loc", list(batch) + [N])
    cov = sym_tensor(f"{name}_cov", list(batch) + [N, N], is_linop=True, symmetric=True)
    o = VObj(ci, label=name)
    o.fields.update({
        "loc": loc, "_covar": cov, "_islazy": TRUE, "_validate_args": FALSE,
        "_MultivariateNormal__unbroadcasted_scale_tril": NONE,
        "_batch_shape": size_tuple(batch), "_event_shape": size_tuple([N]),
        "_output_shape": size_tuple(list(batch) + [n, t]), "_interleaved": VBool(interleaved),
    })
    return o


def is_mt(o):
    return o.cls.qualname == MTMVN


def flat(i, a, n, t, interleaved):
    return i * t + a if interleaved else a * n + i


def _dim_index(ctx, d, i, a, n, t, interleaved):
    """index spec for one dim of a representation tensor at pair (i, a)"""
    want = [n, t] if interleaved else [t, n]
    pair = [i, a] if interleaved else [a, i]
    if len(d.atoms) == 2 and all(same_extent(ctx, x, y) for x, y in zip(d.atoms, want)):
        return pair
    return flat(i, a, n, t, interleaved)


class View:
    """abstract view of a distribution object produced or consumed by the code"""

    def __init__(self, c, o):
        self.c, self.o = c, o
        ctx = c.ctx
        self.mt = is_mt(o)
        self.loc = o.fields["loc"]
        self.cov = o.fields["_covar"] if "_covar" in o.fields else o.fields["covariance_matrix"]
        if self.mt:
            shp = o.fields["_output_shape"].items
            self.n, self.t = shp[-2].t, shp[-1].t
            il = o.fields["_interleaved"]
            il = il.concrete() if isinstance(il, VBool) else None
            if il is None:
                il = bool(ctx.truth(o.fields["_interleaved"].py_truthy(c.it, ctx)))
            self.interleaved = il
            self.batch_rank = len(shp) - 2
        else:
            self.batch_rank = len(self.loc.dims) - 1

    def event_rank(self):
        return 2 if self.mt else 1

    def mean_at(self, b, e):
        """b: list of batch index terms; e: [k] or [i, a]"""
        ctx = self.c.ctx
        if self.mt:
            spec = _dim_index(ctx, self.loc.dims[-1], e[0], e[1], self.n, self.t, self.interleaved)
        else:
            spec = e[0]
        return self.loc.at_dims(list(b) + [spec])

    def cov_at(self, b, e1, e2):
        ctx = self.c.ctx
        if self.mt:
            r = _dim_index(ctx, self.cov.dims[-2], e1[0], e1[1], self.n, self.t, self.interleaved)
            cc = _dim_index(ctx, self.cov.dims[-1], e2[0], e2[1], self.n, self.t, self.interleaved)
        else:
            r, cc = e1[0], e2[0]
        nb = len(self.cov.dims) - 2
        bb = list(b)[len(b) - nb:] if nb <= len(b) else list(b)
        return self.cov.at_dims(bb + [r, cc])

    def mean_tensor(self):
        """Mean as a tensor over (batch..., n, t) or (batch..., N) -- built from the abstract view"""
        if not self.mt:
            return self.loc
        bd = self.loc.dims[:-1]
        nb = sum(len(d.atoms) for d in bd)
        return VTensor(bd + [Dim([self.n]), Dim([self.t])], lambda idx: self.mean_at(_regroup(bd, idx[:nb]), [idx[nb], idx[nb + 1]]), "real")

    def event_extents(self):
        if self.mt:
            return [self.n, self.t]
        return [self.loc.dims[-1].size]

    def batch_dims(self):
        return self.loc.dims[:-1]


def _regroup(dims, flat_atoms):
    out = []
    p = 0
    for d in dims:
        k = len(d.atoms)
        out.append(flat_atoms[p: p + k] if k > 1 else flat_atoms[p])
        p += k
    return out


def coord_tensors(ctx, dims):
    """for a tensor shape, the int tensors C_d(idx) = idx_d (one per dim; dims must be single-atom)"""
    outs = []
    for p in range(len(dims)):
        outs.append(VTensor(list(dims), (lambda idx, p=p: idx[p]), "int"))
    return outs


def fresh_in_range(c, extents, prefix):
    """fresh index constants assumed within range; returns list of z3 Int"""
    out = []
    for e in extents:
        v = ivar(prefix)
        c.assume(z3.And(v >= 0, v < e))
        out.append(v)
    return out


def prove_tensor_eq(c, clause, got: VTensor, want: VTensor, extra=None):
    """got == want as tensors: same rank, same extents, equal at fresh in-range indices"""
    ctx = c.ctx
    if len(got.dims) != len(want.dims):
        c.prove(clause + ".rank", z3.BoolVal(False), got=str(got), want=str(want))
        return
    for p, (dg, dw) in enumerate(zip(got.dims, want.dims)):
        c.prove(f"{clause}.extent[{p}]", dg.size == dw.size)
    # compare at indices of `want` (structure of want); evaluate got through flat per-dim indices when structures differ
    idx_w = []
    per_dim_w = []
    rng = []
    for d in want.dims:
        vs = [ivar("q") for _ in d.atoms]
        for v, a in zip(vs, d.atoms):
            rng.append(z3.And(v >= 0, v < a))
        idx_w.extend(vs)
        per_dim_w.append(vs)
    per_dim_g = []
    for dg, dw, vs in zip(got.dims, want.dims, per_dim_w):
        if len(dg.atoms) == len(dw.atoms) and all(same_extent(ctx, x, y) for x, y in zip(dg.atoms, dw.atoms)):
            per_dim_g.append(vs)
        else:
            per_dim_g.append(E.flat_index(dw.atoms, vs))
    lhs = got.at_dims(per_dim_g)
    rhs = want.elem(idx_w)
    lhs, rhs = E.coerce_pair(lhs, rhs)
    hyp = z3.And(*rng) if rng else z3.BoolVal(True)
    c.prove(clause + ".elem", z3.Implies(hyp, lhs == rhs))


TRIL = "_MultivariateNormal__unbroadcasted_scale_tril"


def seat_cached_tril(c, o):
    """put the distribution in the state 'Cholesky factor already computed and cached' (as after a Cholesky-path
    log_prob / rsample): the cached factor is the factor of the covariance (representation invariant)"""
    from engine.optable_torch import m_cholesky
    L = m_cholesky(o.fields["_covar"], c.it, c.ctx, [], {})
    L = L.copy(is_linop=False, linop_class=None)
    o.fields[TRIL] = L
    return L


def prove_rep_invariant(c, res, tag):
    """representation invariant of a (lazy) MultivariateNormal: a cached scale-tril, if present, is the Cholesky
    factor of the covariance the object carries"""
    import z3 as _z3
    from engine.optable_torch import CHOL, mat_lambda
    from engine.values import NONE as _NONE
    tril = res.fields.get(TRIL, _NONE)
    if tril is _NONE:
        c.prove(f"{tag}.rep_invariant", _z3.BoolVal(True))
        return
    cov = res.fields["_covar"]
    lead = cov.dims[:-2]
    if len(tril.dims) != len(cov.dims):
        c.prove(f"{tag}.rep_invariant", _z3.BoolVal(False), why="cached scale_tril has a different rank than the covariance")
        return
    bidx = fresh_in_range(c, [a for d in lead for a in d.atoms], "rb")
    n = cov.dims[-1].size
    i, j = fresh_in_range(c, [n, n], "ri")
    grouped, p = [], 0
    for d in lead:
        k = len(d.atoms)
        grouped.append(bidx[p: p + k] if k > 1 else bidx[p])
        p += k
    want = _z3.If(j <= i, CHOL(mat_lambda(cov, grouped), n, i, j), _z3.RealVal(0))
    c.prove(f"{tag}.rep_invariant", _z3.And(tril.dims[-1].size == n, tril.dims[-2].size == n, tril.at_dims(grouped + [i, j]) == want))
