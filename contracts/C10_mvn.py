"""C10 -- MultivariateNormal is the distribution it claims to be.

Functions under contract (real AST): MultivariateNormal.{__init__, log_prob, variance, stddev, confidence_region, __add__,
__radd__, __mul__, __truediv__, add_jitter, expand, unsqueeze, __getitem__, rsample, lazy_covariance_matrix}, kl_mvn_mvn.
Dependency contracts (op-table, assumed exact): inv_quad_logdet / logdet / cholesky / root_decomposition as functionals of
the dense matrix; torch indexing / view / expand / repeat.

Spec = abstract view (contracts/dist_spec.py): a Gaussian over N entries with Mean(b, k) and Cov(b, k, l).
"""
from __future__ import annotations

import itertools

import z3

from engine import dom_elem as E
from engine import dom_real
from engine.dom_elem import Dim, VTensor, ivar, mk_sum, sym_tensor
from engine.optable_torch import CHOL, INVQUAD, LOGDET, mat_lambda, vec_lambda
from engine.runner import case
from engine.values import ELLIPSIS, FALSE, NONE, TRUE, PyRaise, VBool, VNum, VObj, VSlice, VTuple, Val
from contracts.C11_mtmvn import getitem_spec, gather_check, sym_index
from contracts.dist_spec import MVN, View, fresh_in_range, make_mvn, prove_rep_invariant, prove_tensor_eq, seat_cached_tril, size_tuple

F = lambda n: f"{MVN}.{n}"


def set_min_variance(c):
    mv = c.real("min_variance")
    c.assume(mv.t > 0)
    for f in ("_global_float_value", "_global_double_value", "_global_half_value"):
        c.ctx.classattrs[("gpytorch.settings.min_variance", f)] = mv
    return mv.t


# ------------------------------------------------------------------------------ log_prob -----------------
LP_PATTERNS = [
    # (loc batch, cov batch, value batch, value event literal-1?)
    ((), (), (), False), (("b",), ("b",), ("b",), False), ((), (), ("b",), False), ((), ("b",), (), False),
    (("b",), ("b",), (), False), ((), (), ("s", "b"), False), (("b",), ("b",), ("s", "b"), False), ((), (), (), True),
    (("b",), ("b",), ("b",), True),
]


@case("C10", clause="log_prob", expand=lambda ix: list(range(len(LP_PATTERNS))), replay=lambda *a: replay_log_prob(*a), timeout=240,
      functions=[F("log_prob")])
def log_prob(c, pat):
    it, ctx = c.it, c.ctx
    lb, cb, vb, one = LP_PATTERNS[pat]
    n = c.size("n")
    sz = {"b": c.size("b").t, "s": c.size("s").t}
    d = make_mvn(c, "d", [sz[x] for x in lb], n.t)
    if cb != lb:
        d.fields["_covar"] = sym_tensor("d_cov2", [sz[x] for x in cb] + [n.t, n.t], is_linop=True, symmetric=True)
        d.fields["_batch_shape"] = size_tuple([sz[x] for x in (cb if len(cb) > len(lb) else lb)])
    y = sym_tensor("y", [sz[x] for x in vb] + [z3.IntVal(1) if one else n.t])
    res = it.call(ctx, c.getattr(d, "log_prob"), [y], {})
    rb = max([lb, cb, vb], key=len)
    c.prove("log_prob.rank", z3.BoolVal(len(res.dims) == len(rb)))
    beta = fresh_in_range(c, [sz[x] for x in rb], "b")
    for p, x in enumerate(rb):
        c.prove(f"log_prob.extent[{p}]", res.dims[p].size == sz[x])

    def sub(names):
        return beta[len(rb) - len(names):] if names else []

    loc, cov = d.fields["loc"], d.fields["_covar"]
    i, j = z3.Int("mi!"), z3.Int("mj!")
    M = z3.Lambda([i], z3.Lambda([j], cov.at(sub(cb) + [i, j])))
    vi = z3.Int("vi!")
    diff = z3.Lambda([vi], y.at(sub(vb) + [z3.IntVal(0) if one else vi]) - loc.at(sub(lb) + [vi]))
    log2pi = dom_real.apply(ctx, "log", 2 * dom_real.pi(ctx))
    want = -(INVQUAD(M, diff, n.t) + LOGDET(M, n.t) + z3.ToReal(n.t) * log2pi) / 2
    c.prove("log_prob.gaussian_density", res.at(beta) == want, pattern=str(LP_PATTERNS[pat]))


# ------------------------------------------------------------------------------ moments / arithmetic -------
@case("C10", clause="moments", expand=lambda ix: [(0,), (1,)], replay=lambda *a: replay_simple(*a),
      functions=[F("variance"), F("stddev"), F("confidence_region")])
def moments(c, br):
    it, ctx = c.it, c.ctx
    n, b = c.size("n"), c.size("b")
    bs = [b.t] if br else []
    d = make_mvn(c, "d", bs, n.t)
    mv = set_min_variance(c)
    idx = fresh_in_range(c, bs + [n.t], "i")
    v = View(c, d)
    diag = v.cov_at(idx[:-1], [idx[-1]], [idx[-1]])
    var = c.getattr(d, "variance")
    c.instantiate_facts([idx])
    want_var = z3.If(diag < mv, mv, diag)
    c.prove("variance.is_clamped_diag", var.at(idx) == want_var)
    c.prove("variance.at_least_min", var.at(idx) >= mv)
    sd = c.getattr(d, "stddev")
    c.instantiate_facts([idx])
    c.prove("stddev.sqrt_of_variance", z3.And(sd.at(idx) >= 0, sd.at(idx) * sd.at(idx) == want_var))
    lo_hi = it.call(ctx, c.getattr(d, "confidence_region"), [], {})
    c.instantiate_facts([idx])
    lo, hi = lo_hi.items
    s = dom_real.apply(ctx, "sqrt", want_var)
    c.prove("confidence_region.lower", lo.at(idx) == v.mean_at(idx[:-1], [idx[-1]]) - 2 * s)
    c.prove("confidence_region.upper", hi.at(idx) == v.mean_at(idx[:-1], [idx[-1]]) + 2 * s)
    # the in-place doubling acts on a fresh tensor: the distribution's own data are unchanged
    c.prove("confidence_region.frame", z3.And(d.fields["loc"].at(idx) == v.mean_at(idx[:-1], [idx[-1]])))


@case("C10", clause="arithmetic", expand=lambda ix: [(0,), (1,)], replay=lambda *a: replay_simple(*a),
      functions=[F("__add__"), F("__radd__"), F("__mul__"), F("__truediv__"), F("add_jitter"), F("__init__")])
def arithmetic(c, br):
    it, ctx = c.it, c.ctx
    n, b = c.size("n"), c.size("b")
    bs = [b.t] if br else []
    d1, d2 = make_mvn(c, "d1", bs, n.t), make_mvn(c, "d2", bs, n.t)
    v1, v2 = View(c, d1), View(c, d2)
    bi = fresh_in_range(c, bs, "b")
    p, q = fresh_in_range(c, [n.t, n.t], "e")

    def same(res, mean, cov, tag):
        rv = View(c, res)
        c.prove(f"{tag}.class", z3.BoolVal(res.cls.qualname == MVN))
        c.prove(f"{tag}.extents", z3.And(rv.loc.dims[-1].size == n.t, rv.cov.dims[-1].size == n.t, rv.cov.dims[-2].size == n.t))
        c.prove(f"{tag}.mean", rv.mean_at(bi, [p]) == mean)
        c.prove(f"{tag}.cov", rv.cov_at(bi, [p], [q]) == cov)

    m1, m2 = v1.mean_at(bi, [p]), v2.mean_at(bi, [p])
    c1, c2 = v1.cov_at(bi, [p], [q]), v2.cov_at(bi, [p], [q])
    same(it.binop(ctx, "+", d1, d2), m1 + m2, c1 + c2, "add_mvn")
    a = c.real("a")
    same(it.binop(ctx, "+", d1, a), m1 + a.t, c1, "add_scalar")
    ai = c.int("ai")
    same(it.binop(ctx, "+", d1, ai), m1 + z3.ToReal(ai.t), c1, "add_int")
    r0 = it.binop(ctx, "+", VNum(0), d1)
    c.prove("radd_zero_is_self", z3.BoolVal(r0 is d1))
    same(it.binop(ctx, "+", a, d1), m1 + a.t, c1, "radd_scalar")
    s = c.real("scale")
    c.assume(s.t != 1)
    same(it.binop(ctx, "*", d1, s), s.t * m1, s.t * s.t * c1, "mul")
    r1 = it.binop(ctx, "*", d1, VNum(1.0))
    c.prove("mul_one_is_self", z3.BoolVal(r1 is d1))
    dv = c.real("divisor")
    c.assume(z3.And(dv.t != 0, dv.t != 1))
    same(it.binop(ctx, "/", d1, dv), m1 / dv.t, c1 / (dv.t * dv.t), "truediv")
    jt = c.real("jitter")
    same(it.call(ctx, c.getattr(d1, "add_jitter"), [jt], {}), m1, c1 + z3.If(p == q, jt.t, 0), "add_jitter")
    exc = c.raises(lambda: it.binop(ctx, "*", d1, d2))
    c.prove("mul_by_distribution_rejected", z3.BoolVal(exc is not None))


@case("C10", clause="expand_unsqueeze", replay=lambda *a: replay_simple(*a), functions=[F("expand"), F("unsqueeze")])
def expand_unsqueeze(c):
    it, ctx = c.it, c.ctx
    n, B = c.size("n"), c.size("B")
    d = make_mvn(c, "d", [z3.IntVal(1)], n.t)
    seat_cached_tril(c, d)
    v = View(c, d)
    r = it.call(ctx, c.getattr(d, "expand"), [size_tuple([B.t])], {})
    prove_rep_invariant(c, r, "expand")
    rv = View(c, r)
    (bi,) = fresh_in_range(c, [B.t], "b")
    p, q = fresh_in_range(c, [n.t, n.t], "e")
    c.prove("expand.batch", rv.loc.dims[0].size == B.t)
    c.prove("expand.mean", rv.mean_at([bi], [p]) == v.mean_at([z3.IntVal(0)], [p]))
    c.prove("expand.cov", rv.cov_at([bi], [p], [q]) == v.cov_at([z3.IntVal(0)], [p], [q]))
    d2 = make_mvn(c, "u", [B.t], n.t)
    seat_cached_tril(c, d2)
    v2 = View(c, d2)
    for dim in (0, 1, -1, -2):
        r2 = it.call(ctx, c.getattr(d2, "unsqueeze"), [VNum(dim)], {})
        prove_rep_invariant(c, r2, f"unsqueeze[{dim}]")
        rv2 = View(c, r2)
        pos = dim if dim >= 0 else dim + 2
        c.prove(f"unsqueeze[{dim}].rank", z3.BoolVal(len(rv2.loc.dims) == 3 and len(rv2.cov.dims) == 4))
        c.prove(f"unsqueeze[{dim}].singleton", rv2.loc.dims[pos].size == 1)
        bb = [z3.IntVal(0), bi] if pos == 0 else [bi, z3.IntVal(0)]
        c.prove(f"unsqueeze[{dim}].mean", rv2.mean_at(bb, [p]) == v2.mean_at([bi], [p]))
        c.prove(f"unsqueeze[{dim}].cov", rv2.cov_at(bb, [p], [q]) == v2.cov_at([bi], [p], [q]))
    exc = c.raises(lambda: it.call(ctx, c.getattr(d2, "unsqueeze"), [VNum(3)], {}))
    c.prove("unsqueeze.out_of_range_rejected", z3.BoolVal(exc is not None and exc.clsname == "IndexError"))


# ------------------------------------------------------------------------------ indexing ------------------
def getitem_cases(ix):
    out = []
    for br in (0, 1, 2):
        for kinds in itertools.product(["int", "slice", "tensor", "full"], repeat=br + 1):
            if kinds.count("tensor") > 1:
                continue
            out.append((br, "+".join(kinds)))
        for k in range(1, br + 1):
            for kinds in itertools.product(["int", "slice"], repeat=k):
                out.append((br, "+".join(kinds) + "+batchonly"))
        out.append((br, "ellipsis+int"))
        out.append((br, "ellipsis+slice"))
        out.append((br, "ellipsis"))
        if br >= 1:
            out.append((br, "int+ellipsis"))
            out.append((br, "slice+ellipsis+slice"))
    return out


@case("C10", clause="getitem", expand=getitem_cases, replay=lambda *a: replay_getitem(*a), timeout=400, functions=[F("__getitem__"), F("__init__")])
def getitem(c, batch_rank, kinds):
    """d[idx] has mean Mean[idx]; its covariance is the marginal covariance of the selected components (independent across
    different batch elements when a batch dimension becomes the event dimension)"""
    n = c.size("n")
    bs = [c.size(f"b{k}").t for k in range(batch_rank)]
    d = make_mvn(c, "d", bs, n.t)
    L = c.size("L")
    exts = bs + [n.t]
    idx = []
    pos = 0
    kl = kinds.split("+")
    for kpos, kd in enumerate(kl):
        if kd == "ellipsis":
            idx.append(ELLIPSIS)
            pos = len(exts) - (len(kl) - kpos - 1)
            continue
        if kd == "batchonly":
            continue
        idx.append(sym_index(c, kd, f"idx{pos}", exts[pos], tensor_len=L.t))
        pos += 1
    idxv = VTuple(idx) if len(idx) != 1 else idx[0]
    res = getitem_spec(c, d, idxv, bs, n.t, None)


@case("C10", clause="getitem.cached_state", expand=lambda ix: [(br, k) for (br, k) in getitem_cases(ix) if br <= 1], replay=lambda *a: replay_getitem_cached(*a),
      timeout=400, functions=[F("__getitem__")])
def getitem_cached(c, batch_rank, kinds):
    """history: the Cholesky factor of the parent is already cached.  The result must still satisfy the
    representation invariant (a cached factor, if any, is the factor of the result's own covariance)"""
    it, ctx = c.it, c.ctx
    n = c.size("n")
    bs = [c.size(f"b{k}").t for k in range(batch_rank)]
    d = make_mvn(c, "d", bs, n.t)
    seat_cached_tril(c, d)
    L = c.size("L")
    exts = bs + [n.t]
    idx, pos = [], 0
    kl = kinds.split("+")
    for kpos, kd in enumerate(kl):
        if kd == "ellipsis":
            idx.append(ELLIPSIS)
            pos = len(exts) - (len(kl) - kpos - 1)
            continue
        if kd == "batchonly":
            continue
        idx.append(sym_index(c, kd, f"idx{pos}", exts[pos], tensor_len=L.t))
        pos += 1
    idxv = VTuple(idx) if len(idx) != 1 else idx[0]
    exc = c.raises(lambda: it.call(ctx, c.getattr(d, "__getitem__"), [idxv], {}))
    if exc is not None:
        c.cover("raises")
        return
    prove_rep_invariant(c, c.last, "getitem")


# ------------------------------------------------------------------------------ the cached factor is the Cholesky factor -----
@case("C10", clause="scale_tril", name="scale_tril_is_the_cholesky_factor", expand=lambda ix: [(br, rooted) for br in (0, 1) for rooted in (False, True)],
      replay=lambda *a: replay_scale_tril(*a), functions=[F("_unbroadcasted_scale_tril")])
def scale_tril_is_cholesky(c, br, rooted):
    """the factor a lazy MultivariateNormal computes on first use and caches (read by the Cholesky path of log_prob, scale_tril, entropy,
    precision_matrix) is the lower-triangular Cholesky factor of its covariance -- also when the covariance is *represented* by a non-triangular
    root R (rooted=True: root_decomposition() hands out R itself, of which only R R^T = covariance is known); the second read returns the cached one"""
    it, ctx = c.it, c.ctx
    n, b = c.size("n"), c.size("b")
    bs = [b.t] if br else []
    d = make_mvn(c, "d", bs, n.t)
    cov = d.fields["_covar"]
    if rooted:
        cov.meta["given_root"] = sym_tensor("R", bs + [n.t, n.t])
    res = c.getattr(d, "_unbroadcasted_scale_tril")
    idx = fresh_in_range(c, bs + [n.t, n.t], "i")
    bi, i_, j_ = idx[:-2], idx[-2], idx[-1]
    mi, mj = z3.Int("mi!"), z3.Int("mj!")
    M = z3.Lambda([mi], z3.Lambda([mj], cov.at(bi + [mi, mj])))
    c.prove("scale_tril.rank", z3.BoolVal(hasattr(res, "dims") and len(res.dims) == br + 2))
    if not hasattr(res, "dims"):
        return
    c.prove("scale_tril.is_the_lower_cholesky_factor_of_the_covariance", res.at_dims(bi + [i_, j_]) == z3.If(j_ <= i_, CHOL(M, n.t, i_, j_), z3.RealVal(0)))
    again = c.getattr(d, "_unbroadcasted_scale_tril")
    c.prove("scale_tril.second_read_returns_the_cached_factor", z3.BoolVal(again is res or again is d.fields.get("_MultivariateNormal__unbroadcasted_scale_tril")))
    c.prove("scale_tril.cached_factor_unchanged", again.at_dims(bi + [i_, j_]) == res.at_dims(bi + [i_, j_]))


def replay_scale_tril(model, params, clause, info):
    """real code: covariance given densely / as RootLinearOperator of a random non-triangular root; the cached factor must be lower triangular with
    L L^T = covariance and the Cholesky-path log_prob must equal torch's dense Gaussian log density"""
    import torch
    import gpytorch
    from linear_operator.operators import RootLinearOperator
    from linear_operator import to_linear_operator
    torch.manual_seed(0)
    br, rooted = int(params[0]), bool(params[1])
    bs = (2,) if br else ()
    bad = []
    for n in (1, 3, 4):
        R = torch.randn(*bs, n, n, dtype=torch.float64) + 2 * torch.eye(n, dtype=torch.float64)
        S = R @ R.transpose(-1, -2)
        mean = torch.randn(*bs, n, dtype=torch.float64)
        d = gpytorch.distributions.MultivariateNormal(mean, RootLinearOperator(R) if rooted else to_linear_operator(S))
        L = d._unbroadcasted_scale_tril
        e1 = (L - L.tril()).abs().max().item()
        e2 = (L @ L.transpose(-1, -2) - S).abs().max().item()
        x = torch.randn(*bs, n, dtype=torch.float64)
        with gpytorch.settings.fast_computations(log_prob=False):
            lp = d.log_prob(x)
        ref = torch.distributions.MultivariateNormal(mean, covariance_matrix=S).log_prob(x)
        e3 = (lp - ref).abs().max().item()
        if not (max(e1, e2, e3) < 1e-8):
            bad.append(f"n={n}: above-diagonal mass {e1:.3g}, |L L^T - S| {e2:.3g}, Cholesky-path log_prob off by {e3:.3g}")
    return {"violates": bool(bad), "detail": "; ".join(bad) or "real cached factor is the lower Cholesky factor; Cholesky-path log_prob equals the dense log density",
            "entry": {"module": "contracts.C10_mvn", "function": "replay_scale_tril", "args": [model, list(params), clause, info]}}


# ------------------------------------------------------------------------------ KL ------------------------
@case("C10", clause="kl", expand=lambda ix: [(0,), (1,), (0, True), (1, True)], replay=lambda *a: replay_kl(*a), functions=["gpytorch.distributions.multivariate_normal.kl_mvn_mvn"])
def kl(c, br, rooted=False):
    """KL(p||q) = 1/2 [ log|Sq| - log|Sp| + (mp-mq)^T Sq^{-1} (mp-mq) + sum_c r_c^T Sq^{-1} r_c - k ],  Sp = R R^T, r_c the columns of R
    (the sum over columns is tr(Sq^{-1} Sp) by cyclicity of the trace -- cited lemma)"""
    it, ctx = c.it, c.ctx
    n, b = c.size("n"), c.size("b")
    bs = [b.t] if br else []
    p, q = make_mvn(c, "p", bs, n.t), make_mvn(c, "q", bs, n.t)
    Rp = None
    if rooted:  # Sp represented by a non-triangular root R (Sp = R R^T): r_c are the columns of that R
        Rp = sym_tensor("Rp", bs + [n.t, n.t])
        p.fields["_covar"].meta["given_root"] = Rp
    res = it.call(ctx, c.func("gpytorch.distributions.multivariate_normal.kl_mvn_mvn"), [p, q], {})
    bi = fresh_in_range(c, bs, "b")
    pc, qc = p.fields["_covar"], q.fields["_covar"]
    i, j = z3.Int("mi!"), z3.Int("mj!")
    Mq = z3.Lambda([i], z3.Lambda([j], qc.at(bi + [i, j])))
    Mp = z3.Lambda([i], z3.Lambda([j], pc.at(bi + [i, j])))
    vi = z3.Int("vi!")
    dm = z3.Lambda([vi], p.fields["loc"].at(bi + [vi]) - q.fields["loc"].at(bi + [vi]))
    # columns of the right-hand side [ (mp - mq) | R ]:  column 0 is the mean difference, column c+1 is column c of the root R of Sp
    dmv = lambda r: p.fields["loc"].at(bi + [r]) - q.fields["loc"].at(bi + [r])
    rootcol = (lambda r, cc: Rp.at(bi + [r, cc])) if rooted else (lambda r, cc: z3.If(cc <= r, CHOL(Mp, n.t, r, cc), z3.RealVal(0)))
    col = lambda cc: z3.Lambda([vi], z3.If(cc < 1, dmv(vi), rootcol(vi, cc - 1)))
    quad_plus_trace = mk_sum(lambda cc: INVQUAD(Mq, col(cc), n.t), 1 + n.t)
    want = (LOGDET(Mq, n.t) - LOGDET(Mp, n.t) + quad_plus_trace - z3.ToReal(n.t)) / 2
    c.prove("kl.rank", z3.BoolVal(len(res.dims) == br))
    c.prove("kl.closed_form", res.at(bi) == want)


# ------------------------------------------------------------------------------ rsample -------------------
@case("C10", clause="rsample", expand=lambda ix: [(0,), (1,), (0, True), (1, True)], replay=lambda *a: replay_simple(*a), functions=[F("rsample")])
def rsample(c, br, rooted=False):
    """rsample(base_samples=e)[s, b, i] = mean[b, i] + sum_k L[b, i, k] e[s, b, k] with L the root handed out by
    root_decomposition (L L^T = covariance by the dependency contract); rooted=True: the covariance is represented by a (non-triangular) root R and
    L is that R"""
    it, ctx = c.it, c.ctx
    n, b, S = c.size("n"), c.size("b"), c.size("S")
    bs = [b.t] if br else []
    d = make_mvn(c, "d", bs, n.t)
    R = None
    if rooted:
        R = sym_tensor("R", bs + [n.t, n.t])
        d.fields["_covar"].meta["given_root"] = R
    e = sym_tensor("eps", [S.t] + bs + [n.t])
    res = it.call(ctx, c.getattr(d, "rsample"), [], {"base_samples": e})
    idx = fresh_in_range(c, [S.t] + bs + [n.t], "i")
    s_, bi, i_ = idx[0], idx[1:-1], idx[-1]
    cov = d.fields["_covar"]
    mi, mj = z3.Int("mi!"), z3.Int("mj!")
    M = z3.Lambda([mi], z3.Lambda([mj], cov.at(bi + [mi, mj])))
    root = (lambda k: R.at(bi + [i_, k])) if rooted else (lambda k: z3.If(k <= i_, CHOL(M, n.t, i_, k), z3.RealVal(0)))
    want = d.fields["loc"].at(bi + [i_]) + mk_sum(lambda k: root(k) * e.at([s_] + bi + [k]), n.t)
    c.prove("rsample.rank", z3.BoolVal(len(res.dims) == br + 2))
    c.prove("rsample.affine_map_of_base_samples", res.at(idx) == want)


# ------------------------------------------------------------------------------ replay --------------------
def _mk(bs, n, seed=0):
    import torch
    from gpytorch.distributions import MultivariateNormal as MV
    g = torch.Generator().manual_seed(seed)
    A = torch.randn(*bs, n, n, dtype=torch.double, generator=g)
    return MV(torch.randn(*bs, n, dtype=torch.double, generator=g), A @ A.transpose(-1, -2) + n * torch.eye(n, dtype=torch.double))


def replay_log_prob(model, params, clause, info):
    import torch
    import gpytorch
    from gpytorch.distributions import MultivariateNormal as MV
    (pat,) = params
    lb, cb, vb, one = LP_PATTERNS[pat]
    sz = {"b": 2, "s": 3}
    n = 3
    g = torch.Generator().manual_seed(1)
    loc = torch.randn(*[sz[x] for x in lb], n, dtype=torch.double, generator=g)
    A = torch.randn(*[sz[x] for x in cb], n, n, dtype=torch.double, generator=g)
    cov = A @ A.transpose(-1, -2) + n * torch.eye(n, dtype=torch.double)
    d = MV(loc, gpytorch.lazy.NonLazyTensor(cov) if hasattr(gpytorch.lazy, "NonLazyTensor") else __import__("linear_operator").to_linear_operator(cov))
    y = torch.randn(*[sz[x] for x in vb], 1 if one else n, dtype=torch.double, generator=g)
    try:
        got_fast = d.log_prob(y)
        with gpytorch.settings.fast_computations(log_prob=False):
            got_chol = MV(loc.expand(*cov.shape[:-2], n) if len(cb) > len(lb) else loc, cov).log_prob(y)
    except Exception as e:
        from engine.runner import classify_replay_exception
        return classify_replay_exception(e)
    bshape = torch.broadcast_shapes(loc.shape[:-1], cov.shape[:-2], y.shape[:-1])
    ref = torch.distributions.MultivariateNormal(loc.expand(*bshape, n), cov.expand(*bshape, n, n)).log_prob(y.expand(*bshape, n))
    ok = got_fast.shape == ref.shape and torch.allclose(got_fast, ref, atol=1e-8) and torch.allclose(got_chol, ref, atol=1e-8)
    return {"violates": not ok, "detail": f"pattern {LP_PATTERNS[pat]}: fast {got_fast.flatten()[:3].tolist()} cholesky {got_chol.flatten()[:3].tolist()} reference {ref.flatten()[:3].tolist()}",
            "entry": {"module": "contracts.C10_mvn", "function": "replay_log_prob", "args": [model, list(params), clause, info]}}


def replay_simple(model, params, clause, info):
    import torch
    import gpytorch
    detail, bad = [], False
    for bs in ([], [2]):
        d1, d2 = _mk(bs, 3, 1), _mk(bs, 3, 2)
        C1, C2 = d1.covariance_matrix, d2.covariance_matrix
        checks = {
            "variance": lambda: torch.allclose(d1.variance, torch.diagonal(C1, dim1=-1, dim2=-2)) and _variance_clamped(bs),
            "stddev": lambda: torch.allclose(d1.stddev, torch.diagonal(C1, dim1=-1, dim2=-2).sqrt()),
            "confidence_region": lambda: all(torch.allclose(a, b) for a, b in zip(d1.confidence_region(), (d1.mean - 2 * d1.stddev, d1.mean + 2 * d1.stddev))),
            "add_mvn": lambda: torch.allclose((d1 + d2).mean, d1.mean + d2.mean) and torch.allclose((d1 + d2).covariance_matrix, C1 + C2),
            "add_scalar": lambda: torch.allclose((d1 + 2.5).mean, d1.mean + 2.5) and torch.allclose((d1 + 2.5).covariance_matrix, C1),
            "add_int": lambda: torch.allclose((d1 + 2).mean, d1.mean + 2),
            "radd": lambda: (0 + d1) is d1 and torch.allclose((1.5 + d1).mean, d1.mean + 1.5),
            "mul": lambda: torch.allclose((d1 * 3.0).mean, 3 * d1.mean) and torch.allclose((d1 * 3.0).covariance_matrix, 9 * C1) and (d1 * 1.0) is d1,
            "truediv": lambda: torch.allclose((d1 / 2.0).mean, d1.mean / 2) and torch.allclose((d1 / 2.0).covariance_matrix, C1 / 4),
            "add_jitter": lambda: torch.allclose(d1.add_jitter(0.3).covariance_matrix, C1 + 0.3 * torch.eye(3, dtype=torch.double)),
            "expand": lambda: True, "unsqueeze": lambda: True,
        }
        key = clause.split(".")[0].split("[")[0].replace("_is_self", "").replace("_zero", "").replace("mul_one", "mul").replace("radd_scalar", "radd")
        for name, fn in checks.items():
            if name.startswith(key) or key.startswith(name):
                try:
                    ok = fn()
                except Exception as e:
                    from engine.runner import classify_replay_exception
                    r = classify_replay_exception(e)
                    ok = not r.get("violates")
                    detail.append(r["detail"][:200])
                detail.append(f"batch {bs} {name}: {ok}")
                bad |= not ok
    if clause.startswith("expand") or clause.startswith("unsqueeze"):
        d = _mk([1], 3, 3)
        r = d.expand(torch.Size([4]))
        ok = torch.allclose(r.mean, d.mean.expand(4, 3)) and torch.allclose(r.covariance_matrix, d.covariance_matrix.expand(4, 3, 3))
        d2 = _mk([2], 3, 4)
        for dim in (0, 1, -1, -2):
            u = d2.unsqueeze(dim)
            pos = dim if dim >= 0 else dim + 2
            ok = ok and torch.allclose(u.mean, d2.mean.unsqueeze(pos)) and torch.allclose(u.covariance_matrix, d2.covariance_matrix.unsqueeze(pos))
        detail.append(f"expand/unsqueeze: {ok}")
        bad |= not ok
    if clause.startswith("rsample"):
        for bs in ([], [2]):
            d = _mk(bs, 3, 5)
            e = torch.randn(4, *bs, 3, dtype=torch.double)
            with gpytorch.settings.fast_computations(covar_root_decomposition=False):
                s = d.rsample(base_samples=e)
                Lr = d.lazy_covariance_matrix.root_decomposition().root.to_dense()
            want = d.mean + (Lr @ e.unsqueeze(-1)).squeeze(-1)
            ok = torch.allclose(s, want) and torch.allclose(Lr @ Lr.transpose(-1, -2), d.covariance_matrix)
            detail.append(f"rsample batch {bs}: {ok}")
            bad |= not ok
            # covariance represented by a non-triangular root: the sample must be mean + R e for that root
            from linear_operator.operators import RootLinearOperator
            R = torch.randn(*bs, 3, 3, dtype=torch.double) + 2 * torch.eye(3, dtype=torch.double)
            dr = gpytorch.distributions.MultivariateNormal(d.mean, RootLinearOperator(R))
            sr = dr.rsample(base_samples=e)
            okr = torch.allclose(sr, d.mean + (R @ e.unsqueeze(-1)).squeeze(-1))
            detail.append(f"rsample root-represented batch {bs}: {okr}")
            bad |= not okr
    return {"violates": bad, "detail": "; ".join(detail) or "no native check for this clause",
            "entry": {"module": "contracts.C10_mvn", "function": "replay_simple", "args": [model, list(params), clause, info]}}


def replay_getitem(model, params, clause, info):
    import torch
    from contracts.C11_mtmvn import _real_index
    batch_rank, kinds = params
    L = max(1, min(4, int(model.get("L", 2)) if isinstance(model.get("L", 2), int) else 2))
    for (n, bs) in [(max(1, min(5, int(model.get("n", 3)))), [max(1, min(3, int(model.get(f"b{k}", 2)))) for k in range(batch_rank)]), (4, [2, 3][:batch_rank]), (3, [3, 2][:batch_rank])]:
        d = _mk(bs, n, 7)
        idx = _real_index(model, kinds, bs + [n], L)
        r = gather_check_mvn(d, idx)
        if r.get("violates"):
            return {"violates": True, "detail": f"n={n} batch={bs} idx={idx!r}: {r['detail']}",
                    "entry": {"module": "contracts.C10_mvn", "function": "replay_getitem", "args": [model, list(params), clause, info]}}
    return {"violates": False, "detail": "real code agrees with the gather oracle"}


def gather_check_mvn(d, idx):
    """dense oracle for MultivariateNormal.__getitem__"""
    import itertools as _it
    import torch
    mean, cov = d.mean, d.covariance_matrix
    try:
        want_mean = mean[idx]
    except Exception as e:
        return {"violates": False, "detail": f"index invalid for the mean ({e})"}
    try:
        r = d[idx]
        rm, rc = r.mean, r.covariance_matrix
    except Exception as e:
        return {"violates": True, "detail": f"valid index raised {type(e).__name__}: {e}"}
    if rm.shape != want_mean.shape or not torch.allclose(rm, want_mean):
        return {"violates": True, "detail": f"mean differs (shape {tuple(rm.shape)} vs {tuple(want_mean.shape)})"}
    grids = torch.meshgrid(*[torch.arange(s) for s in mean.shape], indexing="ij")
    sel = [g[idx] for g in grids]
    if want_mean.dim() == 0:
        src = [int(s) for s in sel]
        want = cov[tuple(src[:-1]) + (src[-1], src[-1])]
        ok = torch.allclose(rc.reshape(()), want)
        return {"violates": not ok, "detail": "scalar variance"}
    bshape, E_ = want_mean.shape[:-1], want_mean.shape[-1]
    if rc.numel() != int(torch.tensor(list(bshape) + [E_, E_]).prod()):
        return {"violates": True, "detail": f"covariance shape {tuple(rc.shape)} for selection {tuple(want_mean.shape)}"}
    rc = rc.reshape(*bshape, E_, E_)
    nb = mean.dim() - 1
    for bi in _it.product(*[range(s) for s in bshape]):
        for p in range(E_):
            for q in range(E_):
                s1 = [int(s[bi + (p,)]) for s in sel]
                s2 = [int(s[bi + (q,)]) for s in sel]
                if p != q and s1 == s2 and s1[:nb] != list(bi)[:nb]:
                    # precondition of the contract (DESIGN 10.4): a batch index tensor that becomes the event dimension selects DISTINCT
                    # elements; the same batch element selected twice (e.g. indices 1 and -1 of a batch of 2) is outside it
                    continue
                want = cov[tuple(s1[:nb]) + (s1[-1], s2[-1])] if s1[:nb] == s2[:nb] else torch.zeros((), dtype=cov.dtype)
                if not torch.allclose(rc[bi + (p, q)], want, atol=1e-10):
                    return {"violates": True, "detail": f"cov entry {bi + (p, q)}: got {rc[bi + (p, q)].item():.6f}, components {s1},{s2} give {want.item():.6f}"}
    return {"violates": False, "detail": "ok"}


def replay_kl(model, params, clause, info):
    import torch
    import gpytorch
    (br,) = params
    bs = [2] if br else []
    p, q = _mk(bs, 3, 1), _mk(bs, 3, 2)
    with gpytorch.settings.fast_computations(False, False, False):
        got = torch.distributions.kl.kl_divergence(p, q)
        same = torch.distributions.kl.kl_divergence(p, p)
    ref = torch.distributions.kl.kl_divergence(torch.distributions.MultivariateNormal(p.mean, p.covariance_matrix),
                                               torch.distributions.MultivariateNormal(q.mean, q.covariance_matrix))
    ok = torch.allclose(got, ref, atol=1e-8) and bool((same.abs() < 1e-8).all())
    # the same distributions with p's covariance REPRESENTED by a non-triangular root (R R^T = P): the value must not depend on the representation
    from linear_operator.operators import RootLinearOperator
    torch.manual_seed(11)
    evals, evecs = torch.linalg.eigh(p.covariance_matrix)
    Rsym = evecs @ torch.diag_embed(evals.clamp_min(0).sqrt()) @ evecs.transpose(-1, -2)  # symmetric square root: not triangular
    p_root = gpytorch.distributions.MultivariateNormal(p.mean, RootLinearOperator(Rsym))
    with gpytorch.settings.fast_computations(False, False, False):
        got_root = torch.distributions.kl.kl_divergence(p_root, q)
        same_root = torch.distributions.kl.kl_divergence(p_root, p_root)
    ok_root = torch.allclose(got_root, ref, atol=1e-7) and bool((same_root.abs() < 1e-7).all())
    ok = ok and ok_root
    return {"violates": not ok, "detail": f"KL {got.tolist()} (dense p) / {got_root.tolist()} (root-represented p) vs closed form {ref.tolist()}; KL(p||p) = {same.tolist()} / {same_root.tolist()}",
            "entry": {"module": "contracts.C10_mvn", "function": "replay_kl", "args": [model, list(params), clause, info]}}


def _variance_clamped(bs):
    """a covariance with diagonal entries below settings.min_variance: variance must be raised to it"""
    import torch
    import warnings
    import gpytorch
    from gpytorch.distributions import MultivariateNormal as MV
    from linear_operator import to_linear_operator
    ok = True
    # dense representation: torch itself requires a positive definite matrix (tiny positive entries);
    # lazy representation: numerically negative diagonal entries can occur and must be raised as well
    for diag, lazy in ((torch.tensor([1.0, 1e-14, 1e-13], dtype=torch.double).expand(*bs, 3), False),
                       (torch.tensor([1.0, 1e-14, -1e-3], dtype=torch.double).expand(*bs, 3), True)):
        cov = to_linear_operator(torch.diag_embed(diag)) if lazy else torch.diag_embed(diag)
        with warnings.catch_warnings():
            warnings.simplefilter("ignore")
            v = MV(torch.zeros(*bs, 3, dtype=torch.double), cov).variance
        mvv = gpytorch.settings.min_variance.value(torch.double)
        ok = ok and torch.allclose(v, diag.clamp_min(mvv), atol=0, rtol=1e-6) and bool((v >= mvv).all())
    return ok


def replay_getitem_cached(model, params, clause, info):
    """parent with its Cholesky factor already computed (Cholesky-path log_prob first); then index and use the result
    on the Cholesky path: it must agree with the dense marginal"""
    import torch
    import gpytorch
    from contracts.C11_mtmvn import _real_index
    from linear_operator import to_linear_operator
    from gpytorch.distributions import MultivariateNormal as MV
    batch_rank, kinds = params
    L = 3
    n = 4
    bs = [2][:batch_rank]
    base = _mk(bs, n, 11)
    d = MV(base.mean, to_linear_operator(base.covariance_matrix))
    with gpytorch.settings.fast_computations(log_prob=False):
        d.log_prob(torch.zeros(*bs, n, dtype=torch.double))  # caches the Cholesky factor on the parent
        idx = _real_index(model, kinds, bs + [n], L)
        try:
            r = d[idx]
            rm, rc = r.mean, r.lazy_covariance_matrix.to_dense()
            if rm.dim() == 0:
                return {"violates": False, "detail": "0-d selection"}
            got = r.log_prob(rm + 0.3)
        except Exception as e:
            from engine.runner import classify_replay_exception
            return classify_replay_exception(e)
        ref = torch.distributions.MultivariateNormal(rm, rc + 0 * torch.eye(rc.size(-1), dtype=torch.double)).log_prob(rm + 0.3)
    ok = torch.allclose(got, ref, atol=1e-8)
    return {"violates": not ok, "detail": f"idx={idx!r}: Cholesky-path log_prob of the indexed distribution {got.flatten()[:3].tolist()} vs dense marginal {ref.flatten()[:3].tolist()}",
            "entry": {"module": "contracts.C10_mvn", "function": "replay_getitem_cached", "args": [model, list(params), clause, info]}}
