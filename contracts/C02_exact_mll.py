"""C02 -- exact marginal log likelihood: assembly of the objective (proof tier), dense value / gradients / LOO (bounded tier).

Functions under contract (real AST): ExactMarginalLogLikelihood.{forward, _add_other_terms}, Module.named_priors /
_extract_named_priors, Module.added_loss_terms, SumMarginalLogLikelihood.forward, utils.generic.length_safe_zip.
Callee contracts: likelihood(function_dist, *params) returns the marginal N(m, K+S) (C12), MultivariateNormal.log_prob returns
log N(y; m, K+S) per batch element (C10), prior.log_prob / AddedLossTerm.loss return their values.

  MLL[b] = ( log N(y_b; ...) + sum_k added_k[b] + sum_p sum_{e} log p_p(value_p)[b, e] ) / n      n = number of observations
for batch ranks 0 and 1, 0..3 priors (model / sub-module), 0..2 added-loss terms; the prior term of a batched model is
reduced over all trailing dims beyond the result's rank only (no cross-talk between batch elements).
"""
from __future__ import annotations

import itertools

import z3

from engine import dom_elem as E
from engine.dom_elem import Dim, VTensor, ivar, mk_sum, sym_tensor
from engine.runner import case
from engine.values import FALSE, NONE, TRUE, VBool, VDict, VList, VNum, VObj, VStr, VTuple
from contracts.C15_objectives import module_obj
from contracts.dist_spec import MVN, make_mvn
from contracts.stubs import Stub

EM = "gpytorch.mlls.exact_marginal_log_likelihood.ExactMarginalLogLikelihood"


def cases(ix):
    return [(br, P, K) for br in (0, 1) for P in (0, 1, 2, 3) for K in (0, 1, 2)] + [(0, "2shared", 0), (1, "2shared", 1), (0, "mt", 0), (1, "mt", 1)]


@case("C02", clause="mll.assembly", expand=cases, replay=lambda *a: replay_mll(*a),
      functions=[f"{EM}.forward", f"{EM}._add_other_terms", "gpytorch.module.Module.named_priors", "gpytorch.module._extract_named_priors",
                 "gpytorch.module.Module.added_loss_terms", "gpytorch.module._extract_named_added_loss_terms"])
def mll_assembly(c, batch_rank, P, K):
    """P = "2shared": ONE prior object registered at two sites (model and sub-module): both registrations contribute their term;
    P = "mt": a multitask function distribution with event shape (n, t): the divisor is the number of targets n * t"""
    it, ctx = c.it, c.ctx
    n = c.size("n")
    b = c.size("b")
    bs = [b.t] if batch_rank else []
    shared, mt = P == "2shared", P == "mt"
    P = 2 if shared else (1 if mt else P)
    if mt:
        from contracts.dist_spec import make_mtmvn
        t = c.size("t")
        fdist = make_mtmvn(c, "f", bs, n.t, t.t, True)
        out = make_mtmvn(c, "marg", bs, n.t, t.t, True)
        y = sym_tensor("y", bs + [n.t, t.t])
        n_targets = n.t * t.t
    else:
        fdist = make_mvn(c, "f", bs, n.t)
        out = make_mvn(c, "marg", bs, n.t)
        y = sym_tensor("y", bs + [n.t])
        n_targets = n.t
    lp = sym_tensor("logprob", bs)
    lp0 = lp.frozen()  # the code updates the returned tensor in place; the spec refers to the value log_prob returned
    lik = module_obj(c, "gpytorch.likelihoods.gaussian_likelihood.GaussianLikelihood", "likelihood")
    model = module_obj(c, "gpytorch.models.exact_gp.ExactGP", "model")
    child = module_obj(c, "gpytorch.kernels.rbf_kernel.RBFKernel", "child")
    model.fields["_modules"].d["covar_module"] = child
    model.fields["_modules"].d["likelihood"] = lik
    log = []

    def hook(it_, ctx_, fi, args, kwargs):
        if isinstance(fi, tuple):
            return NotImplemented
        if args and args[0] is lik and fi.name == "__call__":
            log.append(("likelihood", list(args[1:]), dict(kwargs)))
            return out
        if args and args[0] is out and fi.name == "log_prob":
            log.append(("log_prob", list(args[1:])))
            return lp
        return NotImplemented

    it.call_hooks.append(hook)
    priors = []
    table = []  # (closure value, log-prior tensor) pairs of a shared prior object
    shared_prior = Stub("shared_prior", methods={"log_prob": lambda x: next((l for v, l in table if x is v), sym_tensor("wrong_closure_arg", bs + [z3.IntVal(1)]))}, isa=("Prior",))
    for p in range(P):
        dp = c.size(f"dp{p}")
        lpp = sym_tensor(f"logprior{p}", bs + [dp.t])
        owner = child if (p == P - 1 and P >= 2) else model
        value = sym_tensor(f"pval{p}", bs + [dp.t])
        prior = Stub(f"prior{p}", methods={"log_prob": (lambda x, lpp=lpp, value=value: lpp if x is value else sym_tensor("wrong_closure_arg", bs + [dp.t]))}, isa=("Prior",))
        if shared:
            table.append((value, lpp))
            prior = shared_prior
        seen = []
        closure = Stub(f"closure{p}", methods={"__call__": (lambda m, value=value, seen=seen: (seen.append(m), value)[1])})
        owner.fields["_priors"].d[f"p{p}_prior"] = VTuple([prior, closure, NONE])
        priors.append((lpp, dp.t, owner, seen))
    losses = []
    for k in range(K):
        lt = sym_tensor(f"added{k}", bs)
        term = Stub(f"added_loss{k}", methods={"loss": lambda *a, lt=lt: lt}, isa=("AddedLossTerm",))
        (model if k == 0 else child).fields["_added_loss_terms"].d[f"term{k}"] = term
        losses.append(lt)
    mll = module_obj(c, EM, "mll")
    mll.fields["_modules"].d["likelihood"] = lik
    mll.fields["_modules"].d["model"] = model
    res = it.call(ctx, c.getattr(mll, "forward"), [fdist, y], {})
    c.prove("mll.calls_likelihood_marginal_then_log_prob", z3.BoolVal([e[0] for e in log] == ["likelihood", "log_prob"] and log[0][1][0] is fdist and log[1][1][0] is y))
    for p, (lpp, dp, owner, seen) in enumerate(priors):
        c.prove(f"mll.prior{p}.closure_on_owning_module", z3.BoolVal(len(seen) == 1 and seen[0] is owner))
    bidx = []
    for e in bs:
        v = ivar("b")
        c.assume(z3.And(v >= 0, v < e))
        bidx.append(v)
    total = lp0.at(bidx)
    for lt in losses:
        total = total + lt.at(bidx)
    for lpp, dp, owner, seen in priors:
        total = total + mk_sum(lambda e, lpp=lpp: lpp.at(bidx + [e]), dp)
    c.prove("mll.rank", z3.BoolVal(len(res.dims) == batch_rank))
    c.prove("mll.value", res.at(bidx) == total / z3.ToReal(n_targets))


@case("C02", clause="sum_mll", expand=lambda ix: [(2, False), (3, False), (2, True)], replay=lambda *a: replay_sum(*a),
      functions=["gpytorch.mlls.sum_marginal_log_likelihood.SumMarginalLogLikelihood.forward", "gpytorch.utils.generic.length_safe_zip"])
def sum_mll(c, k, with_params):
    """SumMarginalLogLikelihood = mean of the member values, member i applied to (output_i, target_i[, *params_i])"""
    it, ctx = c.it, c.ctx
    vals = [c.real(f"v{i}") for i in range(k)]
    log = []
    members = [Stub(f"mll{i}", methods={"__call__": (lambda *a, i=i: (log.append((i, list(a))), E.scalar(vals[i].t))[1])}) for i in range(k)]
    o = module_obj(c, "gpytorch.mlls.sum_marginal_log_likelihood.SumMarginalLogLikelihood", "smll")
    o.fields["mlls"] = VList(members)
    outs = VList([VStr(f"out{i}") for i in range(k)])
    tgts = VList([VStr(f"y{i}") for i in range(k)])
    args = [outs, tgts]
    if with_params:
        args.extend([VTuple([VStr(f"p{i}")]) for i in range(k)])  # one iterable of extra arguments per member
    res = it.call(ctx, c.getattr(o, "forward"), args, {})
    want = sum((v.t for v in vals), z3.RealVal(0)) / k
    c.prove("sum_mll.mean_of_members", res.at([]) == want)
    ok = [e[0] for e in log] == list(range(k)) and all(e[1][0].s == f"out{e[0]}" and e[1][1].s == f"y{e[0]}" for e in log)
    if with_params:
        ok = ok and all(len(e[1]) == 3 and e[1][2].s == f"p{e[0]}" for e in log)
    c.prove("sum_mll.member_gets_own_arguments", z3.BoolVal(ok))


def _model(batch_shape, P, K, dtype):
    import torch
    import gpytorch

    class GPM(gpytorch.models.ExactGP):
        def __init__(self, x, y, lik):
            super().__init__(x, y, lik)
            self.mean_module = gpytorch.means.ConstantMean(batch_shape=batch_shape)
            self.covar_module = gpytorch.kernels.ScaleKernel(gpytorch.kernels.RBFKernel(batch_shape=batch_shape, ard_num_dims=2), batch_shape=batch_shape)

        def forward(self, x):
            return gpytorch.distributions.MultivariateNormal(self.mean_module(x), self.covar_module(x))

    class Extra(gpytorch.mlls.AddedLossTerm):
        def __init__(self, v):
            self.v = v

        def loss(self, *a):
            return self.v

    g = torch.Generator().manual_seed(5)
    X = torch.rand(*batch_shape, 7, 2, dtype=dtype, generator=g)
    Y = torch.sin(3 * X.sum(-1)) + 0.1 * torch.randn(*batch_shape, 7, dtype=dtype, generator=g)
    lik = gpytorch.likelihoods.GaussianLikelihood(batch_shape=batch_shape).to(dtype)
    m = GPM(X, Y, lik).to(dtype)
    with torch.no_grad():
        m.covar_module.base_kernel.lengthscale = 0.3 + torch.rand(*batch_shape, 1, 2, dtype=dtype, generator=g)
        m.covar_module.outputscale = 0.5 + torch.rand(batch_shape, dtype=dtype, generator=g)
        lik.noise = 0.05 + 0.1 * torch.rand(*batch_shape, 1, dtype=dtype, generator=g)
    shared = P == "2shared"
    P = 2 if shared else (0 if P == "mt" else P)
    targets = [(m.covar_module, "outputscale"), (m.covar_module.base_kernel, "lengthscale"), (m.mean_module, "constant")][:P]
    one_prior = gpytorch.priors.NormalPrior(0.5, 2.0)  # the SAME prior object at both sites when shared
    for mod, name in targets:
        mod.register_prior(name + "_prior", one_prior if shared else gpytorch.priors.NormalPrior(0.5, 2.0), name)
    extras = []
    if K >= 1:
        m.register_added_loss_term("t0")
        extras.append(torch.full(batch_shape, 0.37, dtype=dtype))
        m.update_added_loss_term("t0", Extra(extras[-1]))
    if K >= 2:
        m.covar_module.register_added_loss_term("t1")
        extras.append(torch.full(batch_shape, 1.21, dtype=dtype))
        m.covar_module.update_added_loss_term("t1", Extra(extras[-1]))
    return m, lik, X, Y, targets, extras


def dense_mll(m, lik, X, Y, targets, extras):
    import math
    import torch
    K = m.covar_module(X).to_dense()
    S = K + lik.noise.unsqueeze(-1) * torch.eye(X.size(-2), dtype=X.dtype)
    d = (Y - m.mean_module(X)).unsqueeze(-1)
    n = X.size(-2)
    lp = -0.5 * ((d.transpose(-1, -2) @ torch.linalg.solve(S, d)).squeeze(-1).squeeze(-1) + torch.logdet(S) + n * math.log(2 * math.pi))
    tot = lp
    for e in extras:
        tot = tot + e
    for mod, name in targets:
        t = mod._priors[name + "_prior"][0].log_prob(getattr(mod, name))
        tot = tot + t.reshape(*lp.shape, -1).sum(-1)
    return tot / n


def replay_mll(model, params, clause, info):
    import torch
    import gpytorch
    br, P, K = params
    bs = torch.Size([2] if br else [])
    if P == "mt":
        return replay_mt_divisor(model, params, clause, info)
    m, lik, X, Y, targets, extras = _model(bs, P, K, torch.float64)
    m.train(); lik.train()
    mll = gpytorch.mlls.ExactMarginalLogLikelihood(lik, m)
    with gpytorch.settings.fast_computations(log_prob=False, covar_root_decomposition=False, solves=False):
        got = mll(m(X), Y)
    want = dense_mll(m, lik, X, Y, targets, extras)
    ok = got.shape == want.shape and torch.allclose(got, want, atol=1e-9)
    return {"violates": not ok, "detail": f"batch {list(bs)}, {P} priors, {K} added losses: MLL {got.tolist()} vs dense definition {want.tolist()}",
            "entry": {"module": "contracts.C02_exact_mll", "function": "replay_mll", "args": [model, list(params), clause, info]}}


def replay_mt_divisor(model, params, clause, info):
    """multitask exact GP: MLL = (log density + other terms) / (n * t)"""
    import math
    import torch
    import gpytorch
    torch.manual_seed(3)
    n, t = 5, 2

    class MT(gpytorch.models.ExactGP):
        def __init__(self, x, y, lik):
            super().__init__(x, y, lik)
            self.mean_module = gpytorch.means.MultitaskMean(gpytorch.means.ConstantMean(), num_tasks=t)
            self.covar_module = gpytorch.kernels.MultitaskKernel(gpytorch.kernels.RBFKernel(), num_tasks=t, rank=1)

        def forward(self, x):
            return gpytorch.distributions.MultitaskMultivariateNormal(self.mean_module(x), self.covar_module(x))

    X = torch.rand(n, 2, dtype=torch.double)
    Y = torch.randn(n, t, dtype=torch.double)
    lik = gpytorch.likelihoods.MultitaskGaussianLikelihood(num_tasks=t).double()
    m = MT(X, Y, lik).double()
    m.train(); lik.train()
    with torch.no_grad(), gpytorch.settings.fast_computations(log_prob=False, covar_root_decomposition=False, solves=False):
        out = m(X)
        got = gpytorch.mlls.ExactMarginalLogLikelihood(lik, m)(out, Y).item()
        marg = lik(out)
        S = marg.covariance_matrix
        d = (Y - marg.mean).reshape(-1, 1)
        lp = -0.5 * ((d.T @ torch.linalg.solve(S, d)).item() + torch.logdet(S).item() + n * t * math.log(2 * math.pi))
    want = lp / (n * t)
    return {"violates": abs(got - want) > 1e-9 * (1 + abs(want)), "detail": f"multitask MLL {got:.12f} vs log density / (n*t) = {want:.12f}",
            "entry": {"module": "contracts.C02_exact_mll", "function": "replay_mt_divisor", "args": [model, list(params), clause, info]}}


def replay_sum(model, params, clause, info):
    import torch
    import gpytorch
    k, with_params = params
    ms = [_model(torch.Size([]), 1, 0, torch.float64) for _ in range(k)]
    ml = gpytorch.models.IndependentModelList(*[t[0] for t in ms])
    ll = gpytorch.likelihoods.LikelihoodList(*[t[1] for t in ms])
    smll = gpytorch.mlls.SumMarginalLogLikelihood(ll, ml)
    ml.train(); ll.train()
    outs = ml(*[t[2] for t in ms])
    got = smll(outs, [t[3] for t in ms])
    singles = [gpytorch.mlls.ExactMarginalLogLikelihood(t[1], t[0])(t[0](t[2]), t[3]) for t in ms]
    want = sum(singles) / k
    ok = torch.allclose(got, want, atol=1e-10)
    return {"violates": not ok, "detail": f"SumMLL {got.item()} vs mean of members {want.item()}",
            "entry": {"module": "contracts.C02_exact_mll", "function": "replay_sum", "args": [model, list(params), clause, info]}}


# ------------------------------------------------------------------ leave-one-out pseudo-likelihood ----------------------------------
LOO = "gpytorch.mlls.leave_one_out_pseudo_likelihood.LeaveOneOutPseudoLikelihood"


@case("C02", clause="loo", name="loo_assembly", expand=lambda ix: [(0,), (1,)], replay=lambda *a: replay_loo(*a), functions=[f"{LOO}.forward", f"{EM}._add_other_terms"], timeout=300)
def loo_assembly(c, batch_rank):
    """LeaveOneOutPseudoLikelihood.forward with the Cholesky factor and its solve as callee contracts (KINV = K^-1 from the solve against the identity,
    ALPHA = K^-1 (y - m)):  sigma2_i = 1 / KINV[i, i],  mu_i = y_i - ALPHA_i sigma2_i,
        result = ( sum_i [ -1/2 log sigma2_i - 1/2 (y_i - mu_i)^2 / sigma2_i ] + log priors + added loss terms ) / n - 1/2 log(2 pi)
    i.e. the average of log N(y_i; mu_i, sigma2_i); by the Lean lemma lean/Loo.lean (loo_identity) sigma2_i and mu_i ARE the predictive variance and mean of
    point i given all other observations, so the value is the average true leave-one-out predictive log density (plus the prior terms, as for the MLL)."""
    it, ctx = c.it, c.ctx
    n, b = c.size("n"), c.size("b")
    c.assume(n.t >= 1)
    bs = [b.t] if batch_rank else []
    fdist = make_mvn(c, "f", bs, n.t)
    M = sym_tensor("marginal_mean", bs + [n.t])
    y = sym_tensor("y", bs + [n.t])
    KINV = sym_tensor("Kinv", bs + [n.t, n.t])
    ALPHA = sym_tensor("Kinv_times_centered_targets", bs + [n.t, z3.IntVal(1)])
    solves = []

    def chol_solve(rhs, upper=None, **k):
        solves.append((rhs, upper))
        return KINV if len(solves) == 1 else ALPHA

    Lf = Stub("cholesky(K)", methods={"_cholesky_solve": chol_solve}, attrs={"shape": VTuple([VNum(e) for e in bs + [n.t, n.t]], is_size=True)}, isa=("LinearOperator",))
    Kop = Stub("K = cov(likelihood(f))", methods={"cholesky": lambda **k: Lf}, isa=("LinearOperator",))
    out = Stub("likelihood(f)", attrs={"mean": M, "lazy_covariance_matrix": Kop}, isa=("MultivariateNormal",))
    lik = module_obj(c, "gpytorch.likelihoods.gaussian_likelihood.GaussianLikelihood", "likelihood")
    model = module_obj(c, "gpytorch.models.exact_gp.ExactGP", "model")
    model.fields["_modules"].d["likelihood"] = lik
    calls = []
    it.call_hooks.append(lambda it_, ctx_, fi, args, kwargs: (calls.append(list(args[1:])), out)[1] if (not isinstance(fi, tuple) and args and args[0] is lik and fi.name == "__call__") else NotImplemented)
    dp = c.size("dp")
    lpp = sym_tensor("logprior", bs + [dp.t])
    value = sym_tensor("pval", bs + [dp.t])
    prior = Stub("prior", methods={"log_prob": lambda x: lpp if x is value else sym_tensor("wrong_closure_arg", bs + [dp.t])}, isa=("Prior",))
    model.fields["_priors"].d["p_prior"] = VTuple([prior, Stub("closure", methods={"__call__": lambda m: value}), NONE])
    lt = sym_tensor("added", bs)
    model.fields["_added_loss_terms"].d["term"] = Stub("added_loss", methods={"loss": lambda *a: lt}, isa=("AddedLossTerm",))
    mll = module_obj(c, LOO, "loo")
    mll.fields["_modules"].d["likelihood"] = lik
    mll.fields["_modules"].d["model"] = model
    res = it.call(ctx, c.getattr(mll, "forward"), [fdist, y], {})
    ok = len(calls) == 1 and calls[0][0] is fdist and len(solves) == 2
    c.prove("loo.one_marginal_and_two_solves_with_the_lower_factor", z3.BoolVal(ok and all(isinstance(u, VBool) and u.concrete() is False for _, u in solves)), uppers=[str(u) for _, u in solves])
    if not ok:
        return
    bb = [ivar("b") for _ in bs]
    i, j = ivar("i"), ivar("j")
    for v, e in zip(bb + [i, j], bs + [n.t, n.t]):
        c.assume(z3.And(v >= 0, v < e))
    eye, rhs = solves[0][0], solves[1][0]
    c.prove("loo.first_solve_is_against_the_identity", z3.And(z3.BoolVal(len(eye.dims) == 2), eye.dims[0].size == n.t, eye.dims[1].size == n.t, eye.at_dims([i, j]) == z3.If(i == j, z3.RealVal(1), z3.RealVal(0))) if len(eye.dims) == 2 else z3.BoolVal(False))
    c.prove("loo.second_solve_is_against_the_centered_targets", z3.And(z3.BoolVal(len(rhs.dims) == len(bs) + 2), rhs.dims[-1].size == 1, rhs.at_dims(bb + [i, z3.IntVal(0)]) == y.at(bb + [i]) - M.at(bb + [i])) if len(rhs.dims) == len(bs) + 2 else z3.BoolVal(False))
    from engine import dom_real
    log = lambda x: dom_real.apply(c.ctx, "log", x)  # noqa: E731
    div = lambda a_, b_: dom_real.rdiv(c.ctx, a_, b_)  # noqa: E731  (the engine's division: reciprocal atoms with their ground axioms)
    s2 = lambda k: div(z3.RealVal(1), KINV.at(bb + [k, k]))  # noqa: E731
    mu = lambda k: y.at(bb + [k]) - ALPHA.at(bb + [k, z3.IntVal(0)]) * s2(k)  # noqa: E731
    want_sum = mk_sum(lambda k: z3.RealVal("-1/2") * log(s2(k)) - z3.RealVal("1/2") * div((y.at(bb + [k]) - mu(k)) * (y.at(bb + [k]) - mu(k)), s2(k)), n.t)
    prior_sum = mk_sum(lambda k: lpp.at(bb + [k]), dp.t)
    half_log_2pi = log(2 * dom_real.pi(c.ctx)) / 2
    okr = isinstance(res, VTensor) and len(res.dims) == len(bs)
    c.prove("loo.value", (res.at_dims(bb) == div(want_sum + prior_sum + lt.at(bb), z3.ToReal(n.t)) - half_log_2pi) if okr else z3.BoolVal(False))
    c.ctx.assumptions.add("Lean 4.33 kernel and Mathlib are trusted for lean/Loo.lean (real matrices; the held-out point is taken as the last index, kernel matrices being permutation-equivariant)")
    c.prove_lemma("loo.sigma2_and_mu_are_the_leave_one_out_predictive_moments", "Loo.lean", "loo_identity")


def replay_loo(model, params, clause, info):
    """real LeaveOneOutPseudoLikelihood against the average of the true leave-one-out predictive log densities (dense conditioning on the other n-1 points)"""
    import math
    import torch
    import gpytorch
    (br,) = params
    torch.manual_seed(7)
    n = 6
    bs = torch.Size([2] if br else [])
    X = torch.rand(*bs, n, 2, dtype=torch.double)
    Y = torch.randn(*bs, n, dtype=torch.double)

    class G(gpytorch.models.ExactGP):
        def __init__(self, lik):
            super().__init__(X, Y, lik)
            self.mean_module = gpytorch.means.ConstantMean(batch_shape=bs)
            self.covar_module = gpytorch.kernels.ScaleKernel(gpytorch.kernels.RBFKernel(batch_shape=bs), batch_shape=bs)

        def forward(self, x):
            return gpytorch.distributions.MultivariateNormal(self.mean_module(x), self.covar_module(x))

    lik = gpytorch.likelihoods.GaussianLikelihood(batch_shape=bs).double()
    g = G(lik).double()
    g.mean_module.constant.data.fill_(0.3)
    lik.noise = 0.2
    g.train()
    mll = gpytorch.mlls.LeaveOneOutPseudoLikelihood(lik, g)
    with torch.no_grad():
        got = mll(g(X), Y)
        K = lik(g(X)).covariance_matrix
        m = g.mean_module(X)
        tot = torch.zeros(bs, dtype=torch.double)
        for i in range(n):
            rest = [j for j in range(n) if j != i]
            A = K[..., rest, :][..., :, rest]
            kv = K[..., rest, i]
            sol = torch.linalg.solve(A, torch.stack([kv, Y[..., rest] - m[..., rest]], -1))
            mu = m[..., i] + (kv * sol[..., 1]).sum(-1)
            var = K[..., i, i] - (kv * sol[..., 0]).sum(-1)
            tot = tot + (-0.5 * torch.log(2 * math.pi * var) - 0.5 * (Y[..., i] - mu) ** 2 / var)
        want = tot / n
    bad = not torch.allclose(got, want, atol=1e-9)
    return {"violates": bool(bad), "detail": f"LOO pseudo-likelihood {got.tolist()} vs average true leave-one-out log density {want.tolist()}",
            "entry": {"module": "contracts.C02_exact_mll", "function": "replay_loo", "args": [model, list(params), clause, info]}}
