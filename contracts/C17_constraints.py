"""C17 -- constraints, parameter setters, prior closures.

Functions under contract (real AST): Interval/GreaterThan/Positive/LessThan.{__init__, transform,
inverse_transform, check_raw, enforced}, utils.transforms.{inv_sigmoid, inv_softplus},
Module.{initialize, constraint_for_parameter_name, register_prior closures} and, for every
`register_constraint("raw_X", ...)` site found in gpytorch/ on this run, the getter / setter / `_set_X`
of the constrained parameter X and the closures of its `register_prior` call.

Clauses:
  ctor.*            Interval(l, u) raises iff l >= u (or a non-finite bound for Interval itself); otherwise
                    the bounds are stored as buffers (class invariant l < u)
  transform.in_bounds / monotone / unenforced
  roundtrip.inverse_of_transform / transform_of_inverse      (CAS back end for the exp/log identities)
  site.getter_is_transform / setter_roundtrip / closure / setting_closure / check_raw
"""
from __future__ import annotations

import ast

import z3

from engine import dom_elem as E
from engine.dom_elem import Dim, VTensor, ivar, sym_tensor
from engine.optable_torch import INF
from engine.runner import case
from engine.values import FALSE, NONE, TRUE, PyRaise, Undecided, VBool, VDict, VFunc, VList, VNum, VObj, VStr, VTuple
from contracts.stubs import Stub

CM = "gpytorch.constraints.constraints"
KINDS = ["Interval", "GreaterThan", "Positive", "LessThan"]
SHAPE_ONE = {"ConstantKernel": ("raw_constant",)}


def finite(c, name, positive=False):
    x = c.real(name)
    c.assume(z3.And(x.t > -INF, x.t < INF, INF > 0))
    if positive:
        c.assume(x.t > 0)
    return x


def make_constraint(c, kind, tag=""):
    """construct the constraint through its real __init__ with symbolic finite bounds l < u (u = l + w, w > 0)"""
    it, ctx = c.it, c.ctx
    l = finite(c, f"l{tag}")
    w = finite(c, f"w{tag}", positive=True)
    u = VNum(l.t + w.t)
    c.assume(u.t < INF)
    cls = c.cls(f"{CM}.{kind}")
    if kind == "Interval":
        cons = it.call(ctx, cls, [l, u], {})
        lo, hi = l.t, u.t
    elif kind == "GreaterThan":
        cons = it.call(ctx, cls, [l], {})
        lo, hi = l.t, None
    elif kind == "Positive":
        cons = it.call(ctx, cls, [], {})
        lo, hi = z3.RealVal(0), None
    else:
        cons = it.call(ctx, cls, [u], {})
        lo, hi = None, u.t
    return cons, lo, hi


def asm(extra=None):
    a = {"w": {"positive": True}, "w2": {"positive": True}}
    a.update(extra or {})
    return a


def scalar_of(t):
    return t.elem([z3.IntVal(0)] * t.natoms())


@case("C17", clause="ctor", functions=[f"{CM}.Interval.__init__"], replay=lambda *a: replay_ctor(*a))
def ctor_interval(c):
    it, ctx = c.it, c.ctx
    l, u = finite(c, "l"), finite(c, "u")
    cls = c.cls(f"{CM}.Interval")
    exc = c.raises(lambda: it.call(ctx, cls, [l, u], {}))
    if exc is not None:
        c.cover("raises")
        c.prove("ctor.raises_only_if_empty", l.t >= u.t)
        return
    cons = c.last
    c.cover("constructed")
    c.prove("ctor.invariant_l_lt_u", l.t < u.t)
    c.prove("ctor.lower_stored", scalar_of(c.getattr(cons, "lower_bound")) == l.t)
    c.prove("ctor.upper_stored", scalar_of(c.getattr(cons, "upper_bound")) == u.t)
    bufs = cons.fields["_buffers"].d
    c.prove("ctor.bounds_are_buffers", z3.BoolVal("lower_bound" in bufs and "upper_bound" in bufs))


@case("C17", clause="ctor", functions=[f"{CM}.Interval.__init__"], replay=lambda *a: replay_ctor(*a))
def ctor_interval_infinite(c):
    """Interval itself rejects non-finite bounds"""
    it, ctx = c.it, c.ctx
    l = finite(c, "l")
    cls = c.cls(f"{CM}.Interval")
    exc = c.raises(lambda: it.call(ctx, cls, [l, VNum(INF)], {}))
    c.prove("ctor.rejects_infinite_upper", z3.BoolVal(exc is not None and exc.clsname == "ValueError"))
    exc = c.raises(lambda: it.call(ctx, cls, [VNum(-INF), l], {}))
    c.prove("ctor.rejects_infinite_lower", z3.BoolVal(exc is not None and exc.clsname == "ValueError"))


@case("C17", clause="transform", expand=lambda ix: [(k,) for k in KINDS], replay=lambda *a: replay_transform(*a),
      functions=[f"{CM}.{k}.{m}" for k in KINDS for m in ("__init__", "transform")] + [f"{CM}.Interval.enforced"])
def transform_bounds(c, kind):
    it, ctx = c.it, c.ctx
    cons, lo, hi = make_constraint(c, kind)
    r1, r2 = finite(c, "raw1"), finite(c, "raw2")
    t1 = scalar_of(it.call(ctx, c.getattr(cons, "transform"), [E.scalar(r1.t)], {}))
    t2 = scalar_of(it.call(ctx, c.getattr(cons, "transform"), [E.scalar(r2.t)], {}))
    if lo is not None:
        c.prove("transform.in_bounds.lower", t1 >= lo)
    if hi is not None:
        c.prove("transform.in_bounds.upper", t1 <= hi)
    c.prove("transform.monotone", z3.Implies(r1.t < r2.t, t1 < t2))
    # an un-enforced constraint (transform=None) is the identity
    cons.py_setattr(it, ctx, "_transform", NONE)
    t3 = scalar_of(it.call(ctx, c.getattr(cons, "transform"), [E.scalar(r1.t)], {}))
    c.prove("transform.unenforced_identity", t3 == r1.t)


@case("C17", clause="transform", expand=lambda ix: [(k,) for k in KINDS], replay=lambda *a: replay_transform(*a),
      functions=[f"{CM}.{k}.transform" for k in KINDS])
def transform_bounds_tensor(c, kind):
    """tensor-valued bounds and raw values: elementwise, for every extent d"""
    it, ctx = c.it, c.ctx
    cons, lo, hi = make_constraint(c, kind)
    d = c.size("d")
    L = sym_tensor("Lb", [d.t])
    W = sym_tensor("Wb", [d.t])
    raw = sym_tensor("rawv", [d.t])
    k = ivar("k")
    c.assume(z3.And(k >= 0, k < d.t, W.at([k]) > 0))
    U = E.pointwise(ctx, [L, W], lambda a, b: a + b)
    bufs = cons.fields["_buffers"].d
    if kind in ("Interval", "GreaterThan"):
        bufs["lower_bound"] = L
    if kind in ("Interval", "LessThan"):
        bufs["upper_bound"] = U
    t = it.call(ctx, c.getattr(cons, "transform"), [raw], {})
    c.prove("transform.tensor.extent", t.dims[-1].size == d.t)
    v = t.at([k])
    if kind in ("Interval", "GreaterThan"):
        c.prove("transform.tensor.in_bounds.lower", v >= L.at([k]))
    if kind == "Positive":
        c.prove("transform.tensor.in_bounds.lower", v >= 0)
    if kind in ("Interval", "LessThan"):
        c.prove("transform.tensor.in_bounds.upper", v <= U.at([k]))


@case("C17", clause="roundtrip", expand=lambda ix: [(k,) for k in KINDS], replay=lambda *a: replay_transform(*a),
      functions=[f"{CM}.{k}.{m}" for k in KINDS for m in ("transform", "inverse_transform")] +
                ["gpytorch.utils.transforms.inv_sigmoid", "gpytorch.utils.transforms.inv_softplus"])
def roundtrip(c, kind):
    it, ctx = c.it, c.ctx
    cons, lo, hi = make_constraint(c, kind)
    x = finite(c, "x")
    tx = it.call(ctx, c.getattr(cons, "transform"), [E.scalar(x.t)], {})
    back = scalar_of(it.call(ctx, c.getattr(cons, "inverse_transform"), [tx], {}))
    c.prove_identity("roundtrip.inverse_of_transform", back, x.t, asm())
    # v in the open interval, written as an offset from a finite bound
    if kind == "Interval":
        s = c.real("s")
        c.assume(z3.And(s.t > 0, s.t < 1))
        v = lo + s.t * (hi - lo)
        a2 = asm({"s": {"positive": True, "range": (0.05, 0.95)}})
    elif kind in ("GreaterThan", "Positive"):
        p = finite(c, "p", positive=True)
        v = lo + p.t
        a2 = asm({"p": {"positive": True}})
    else:
        p = finite(c, "p", positive=True)
        v = hi - p.t
        a2 = asm({"p": {"positive": True}})
    iv = it.call(ctx, c.getattr(cons, "inverse_transform"), [E.scalar(v)], {})
    fwd = scalar_of(it.call(ctx, c.getattr(cons, "transform"), [iv], {}))
    c.prove_identity("roundtrip.transform_of_inverse", fwd, v, a2)


# ------------------------------------------------------------------------------ module sites ----------
def find_sites(index):
    """every register_constraint("raw_X", ...) call in gpytorch/: (module, class, raw name)"""
    out = []
    for modname in index.all_gpytorch_modules():
        m = index.get_module(modname)
        if m is None:
            continue
        for cname, ci in m.classes.items():
            for fn in list(ci.methods.values()):
                for n in ast.walk(fn.node):
                    if isinstance(n, ast.Call) and isinstance(n.func, ast.Attribute) and n.func.attr == "register_constraint" \
                            and isinstance(n.func.value, ast.Name) and n.func.value.id == "self" and n.args \
                            and isinstance(n.args[0], ast.Constant) and isinstance(n.args[0].value, str):
                        key = (modname, cname, n.args[0].value)
                        if key not in out:
                            out.append(key)
    return out


def site_cases(index):
    return [(m, cn, raw, kind) for (m, cn, raw) in find_sites(index) for kind in KINDS]


def find_accessors(ci, raw):
    """the property whose getter reads self.<raw>_constraint -- directly or through one helper method it calls"""
    cname = raw + "_constraint"

    def mentions(node):
        return any(isinstance(n, ast.Attribute) and n.attr == cname for n in ast.walk(node))

    for c in ci.mro_classes():
        for name, fi in c.methods.items():
            if not fi.is_property:
                continue
            if mentions(fi.node):
                return name
            for n in ast.walk(fi.node):
                if isinstance(n, ast.Call) and isinstance(n.func, ast.Attribute) and isinstance(n.func.value, ast.Name) \
                        and n.func.value.id == "self":
                    helper = ci.find_method(n.func.attr)
                    if helper is not None and not helper.is_property and mentions(helper.node):
                        return name
    return None


CTOR_STATE = {
    # fields the constructor sets and the accessors consult (the configuration in which the parameter exists)
    "MultitaskGaussianLikelihood": {"rank": VNum(0)}, "_MultitaskGaussianLikelihoodBase": {"rank": VNum(0)},
}


def seat_module(c, ci, raw, cons, shape):
    """an object of class ci in the state its constructor leaves for this site: parameter raw_X, its constraint
    registered as a sub-module and in _constraints; no other state is needed by the accessors"""
    o = VObj(ci, label="m")
    p = sym_tensor("raw_param", shape)
    p.meta["is_parameter"] = True
    o.fields.update({
        "_parameters": VDict({raw: p}), "_buffers": VDict(), "_modules": VDict({raw + "_constraint": cons}),
        "_constraints": VDict({raw + "_constraint": cons}), "_priors": VDict(), "_added_loss_terms": VDict(),
        "_strict_init": TRUE, "_load_strict_shapes": TRUE, "training": TRUE,
        # constructor state some setters consult (non-batched instance)
        "_batch_shape": VTuple([], is_size=True),
    })
    o.fields.update(CTOR_STATE.get(ci.name, {}))
    # the base Kernel only owns a lengthscale when a subclass sets has_lengthscale
    c.ctx.classattrs[("gpytorch.kernels.kernel.Kernel", "has_lengthscale")] = TRUE
    if raw in SHAPE_ONE.get(ci.name, ()):
        c.assume(shape[0] == 1)  # this parameter has shape (*batch_shape, 1)
    return o, p


class ConstraintContract:
    """callee contracts of <Constraint>.transform / inverse_transform, used when verifying their callers
    (proved separately by the `transform` and `roundtrip` cases):
      T(raw)            : elementwise; result within [lo, hi]; the same raw tensor state gives the same result
      I(v)              : elementwise; defined for v in the open interval
      T(I(v)) = v       : for v in the open interval
    """

    def __init__(self, c, cons, lo, hi):
        self.c, self.cons, self.lo, self.hi = c, cons, lo, hi
        self.n = 0
        self.memo = {}
        self.used = set()
        c.it.call_hooks.append(self.hook)

    def hook(self, it, ctx, fi, args, kwargs):
        if isinstance(fi, tuple) or fi.cls is None or not args or args[0] is not self.cons:
            return NotImplemented
        if fi.name == "transform":
            return self.transform(args[1])
        if fi.name == "inverse_transform":
            return self.inverse(args[1])
        return NotImplemented

    def inverse(self, v):
        self.used.add("inverse_transform")
        self.n += 1
        f = z3.Function(f"inv{self.n}", z3.IntSort(), z3.RealSort())
        r = VTensor(list(v.dims), lambda idx, f=f: f(E.flat_index([a for d in v.dims for a in d.atoms], idx)), "real")
        r.meta["inverse_of"] = v
        return r

    def transform(self, raw):
        self.used.add("transform")
        src = raw.meta.get("inverse_of")
        if src is not None:
            self.used.add("transform(inverse_transform(v)) = v")
            # contract precondition: v in the open interval -- checked at every index the result is used at
            def elem(idx, src=src):
                v = src.elem(idx)
                pre = []
                if self.lo is not None:
                    pre.append(v > self.lo)
                if self.hi is not None:
                    pre.append(v < self.hi)
                self.c.ctx.ghost.setdefault("contract_pre", []).append(z3.And(*pre) if pre else z3.BoolVal(True))
                return v
            return VTensor(list(src.dims), elem, "real")
        key = (id(raw), raw.meta.get("version", 0))
        if key in self.memo:
            return self.memo[key]
        self.n += 1
        relem = raw.elem

        def elem(idx):
            x = relem(idx)
            t = TR(x)
            if self.lo is not None:
                self.c.ctx.assume(t >= self.lo)
            if self.hi is not None:
                self.c.ctx.assume(t <= self.hi)
            return t

        TR = z3.Function(f"T{self.n}", z3.RealSort(), z3.RealSort())
        r = VTensor(list(raw.dims), elem, "real")
        self.memo[key] = r
        return r


def in_bounds_value(c, name, d, lo, hi):
    """a tensor of values in the open interval (lo, hi) with finite entries: every evaluated entry carries
    the ground instance of that precondition"""
    P = sym_tensor(name, [d])
    f = P.meta["uf"]

    def elem(idx):
        v = f(*idx)
        pre = [v > -INF, v < INF]
        if lo is not None:
            pre.append(v > lo)
        if hi is not None:
            pre.append(v < hi)
        c.ctx.assume(z3.And(*pre))
        return v

    P.elem = elem
    return P


@case("C17", clause="site", expand=site_cases, replay=lambda *a: replay_site(*a), timeout=180,
      functions=["gpytorch.module.Module.initialize", "gpytorch.module.Module.constraint_for_parameter_name",
                 f"{CM}.Interval.check_raw", "(+ getter / setter / _set_X of every register_constraint site, listed per case)"])
def site(c, modname, cname, raw, kind):
    it, ctx = c.it, c.ctx
    ci = it.index.get_module(modname).classes[cname]
    prop = find_accessors(ci, raw)
    if prop is None:
        c.fail("site.accessor_found", f"no property reads {raw}_constraint in {cname}")
        return
    c.info["property"] = prop
    cons, lo, hi = make_constraint(c, kind)
    d = c.size("d")
    o, p0 = seat_module(c, ci, raw, cons, [d.t])
    cc = ConstraintContract(c, cons, lo, hi)
    k = ivar("k")
    c.assume(z3.And(k >= 0, k < d.t))
    # (a) the getter is constraint.transform(raw): same value, hence inside the bounds after ANY history
    got = c.getattr(o, prop)
    want = cc.transform(p0)
    c.prove("site.getter_is_transform.extent", got.dims[-1].size == d.t)
    c.prove("site.getter_is_transform", got.at_dims([k]) == want.at([k]))
    gk = got.at_dims([k])
    if lo is not None:
        c.prove("site.reads_inside_bounds.lower", gk >= lo)
    if hi is not None:
        c.prove("site.reads_inside_bounds.upper", gk <= hi)
    # (b) assigning an in-bounds value through the public setter reads back that value; nothing else is written
    V = in_bounds_value(c, "val", d.t, lo, hi)
    n_writes = len(ctx.writes)
    exc = c.raises(lambda: o.py_setattr(it, ctx, prop, V))
    if exc is not None:
        c.prove("site.setter_accepts_in_bounds", z3.BoolVal(False), raised=exc.describe())
        return
    c.cover("set")
    got2 = c.getattr(o, prop)
    c.prove("site.setter_roundtrip", got2.at_dims([k]) == V.at([k]))
    pres = ctx.ghost.get("contract_pre", [])
    c.prove("site.callee_preconditions", z3.And(*pres) if pres else z3.BoolVal(True))
    foreign = [w for w in ctx.writes[n_writes:] if w[0] == "field" and w[2] not in (raw,)]
    c.prove("site.setter_frame", z3.BoolVal(not foreign), writes=[list(w) for w in foreign])
    new_raw = o.fields["_parameters"].d[raw]
    c.prove("site.setter_keeps_parameter_cell", z3.BoolVal(new_raw is p0))
    c.prove("site.setter_used_inverse", z3.BoolVal("transform(inverse_transform(v)) = v" in cc.used))


def prior_sites(index):
    out = []
    for (modname, cname, raw) in find_sites(index):
        ci = index.get_module(modname).classes[cname]
        prop = find_accessors(ci, raw)
        if prop is None:
            continue
        for fn in ci.methods.values():
            for n in ast.walk(fn.node):
                if isinstance(n, ast.Call) and isinstance(n.func, ast.Attribute) and n.func.attr == "register_prior" and len(n.args) >= 3 \
                        and isinstance(n.args[0], ast.Constant) and n.args[0].value == prop + "_prior":
                    out.append((modname, cname, raw, prop))
                    break
    return sorted(set(out))


@case("C17", clause="prior_closures", expand=prior_sites, replay=lambda *a: replay_site(*a), timeout=180,
      functions=["gpytorch.module.Module.register_prior", "gpytorch.module.Module.sample_from_prior"])
def prior_closures(c, modname, cname, raw, prop):
    """the (closure, setting_closure) pair handed to register_prior reads / writes exactly the constrained value:
    closure(m) == m.X and setting_closure(m, v) makes m.X read back v -- hence sample_from_prior stores the sample"""
    it, ctx = c.it, c.ctx
    ci = it.index.get_module(modname).classes[cname]
    cons, lo, hi = make_constraint(c, "Positive")
    d = c.size("d")
    o, p0 = seat_module(c, ci, raw, cons, [d.t])
    cc = ConstraintContract(c, cons, lo, hi)
    call = None
    for fn in ci.methods.values():
        for n in ast.walk(fn.node):
            if isinstance(n, ast.Call) and isinstance(n.func, ast.Attribute) and n.func.attr == "register_prior" and len(n.args) >= 3 \
                    and isinstance(n.args[0], ast.Constant) and n.args[0].value == prop + "_prior":
                call, owner = n, fn
    from engine.symexec import Env
    env = Env(module=ci.module, func=owner, defcls=ci)
    env.set("self", o)
    closure = it.eval(ctx, call.args[2], env)
    setting = it.eval(ctx, call.args[3], env) if len(call.args) > 3 else NONE
    for kw in call.keywords:
        if kw.arg == "setting_closure":
            setting = it.eval(ctx, kw.value, env)
    k = ivar("k")
    c.assume(z3.And(k >= 0, k < d.t))
    if isinstance(closure, VStr):
        c.prove("prior.closure_names_parameter", z3.BoolVal(closure.s == prop or closure.s == raw))
        return
    cv = it.call(ctx, closure, [o], {})
    gv = c.getattr(o, prop)
    c.prove("prior.closure_reads_parameter", cv.at_dims([k]) == gv.at_dims([k]))
    if setting is NONE:
        c.prove("prior.no_setting_closure_documented", z3.BoolVal(True))
        return
    V = in_bounds_value(c, "val", d.t, lo, hi)
    exc = c.raises(lambda: it.call(ctx, setting, [o, V], {}))
    if exc is not None:
        c.prove("prior.setting_closure_accepts", z3.BoolVal(False), raised=exc.describe())
        return
    gv2 = c.getattr(o, prop)
    c.prove("prior.setting_closure_stores", gv2.at_dims([k]) == V.at([k]))


# ------------------------------------------------------------------------------ replay ---------------
def _mk(kind, l, w):
    import torch
    from gpytorch import constraints as C
    u = l + w
    return {"Interval": lambda: C.Interval(l, u), "GreaterThan": lambda: C.GreaterThan(l), "Positive": lambda: C.Positive(),
            "LessThan": lambda: C.LessThan(u)}[kind]()


def _f(model, k, d=0.0):
    v = model.get(k, d)
    return float(v) if isinstance(v, (int, float)) else d


def replay_ctor(model, params, clause, info):
    import torch
    from gpytorch.constraints import Interval
    l, u = _f(model, "l"), _f(model, "u", 1.0)
    try:
        cons = Interval(l, u)
        raised = None
    except Exception as e:
        raised = e
    if clause.startswith("ctor.raises_only_if_empty"):
        bad = raised is not None and l < u
    elif clause.startswith("ctor.rejects_infinite"):
        try:
            Interval(l, float("inf"))
            bad = True
        except ValueError:
            bad = False
    else:
        bad = raised is None and not (l < u and float(cons.lower_bound) == torch.tensor(l).float().item())
    return {"violates": bool(bad), "detail": f"Interval({l}, {u}) -> {'raised ' + repr(raised) if raised else 'constructed'}",
            "entry": {"module": "contracts.C17_constraints", "function": "replay_ctor", "args": [model, list(params), clause, info]}}


def replay_transform(model, params, clause, info):
    import torch
    torch.set_default_dtype(torch.float64)
    try:
        kind = params[0]
        l, w = _f(model, "l"), max(_f(model, "w", 1.0), 1e-3)
        cons = _mk(kind, l, w)
        lo = float(cons.lower_bound)
        hi = float(cons.upper_bound)
        detail, bad = [], False
        pts = sorted({_f(model, "raw1"), _f(model, "raw2", 1.0), _f(model, "x"), -3.0, -0.5, 0.0, 0.7, 2.5, 30.0, -30.0})
        xs = torch.tensor(pts, dtype=torch.float64)
        ys = cons.transform(xs)
        if clause.startswith("transform"):
            ok = bool(torch.all(ys >= lo) and torch.all(ys <= hi) and torch.all(ys[1:] >= ys[:-1]))
            detail.append(f"{kind}({lo},{hi}).transform({pts}) = {ys.tolist()} in bounds and monotone: {ok}")
            bad |= not ok
        else:
            mid = xs[(xs.abs() < 20)]
            back = cons.inverse_transform(cons.transform(mid))
            ok1 = torch.allclose(back, mid, atol=1e-8, rtol=1e-8)
            inner = torch.tensor([0.1, 0.5, 0.9], dtype=torch.float64)
            vs = (lo + inner * (hi - lo)) if kind == "Interval" else (lo + 3 * inner if kind in ("GreaterThan", "Positive") else hi - 3 * inner)
            fwd = cons.transform(cons.inverse_transform(vs))
            ok2 = torch.allclose(fwd, vs, atol=1e-8, rtol=1e-8)
            detail.append(f"inverse(transform(x)) == x: {ok1}; transform(inverse(v)) == v: {ok2}")
            bad |= not (ok1 and ok2)
        return {"violates": bad, "detail": "; ".join(detail),
                "entry": {"module": "contracts.C17_constraints", "function": "replay_transform", "args": [model, list(params), clause, info]}}
    finally:
        torch.set_default_dtype(torch.float32)


def _instances():
    """real module instances that own constrained parameters (for site replays and the bounded tier)"""
    import torch
    import gpytorch
    from gpytorch import kernels as K, likelihoods as L, means as M
    mk = {
        "ScaleKernel": lambda: K.ScaleKernel(K.RBFKernel()), "RBFKernel": lambda: K.RBFKernel(ard_num_dims=2),
        "Kernel": lambda: K.RBFKernel(ard_num_dims=2), "PeriodicKernel": lambda: K.PeriodicKernel(), "CosineKernel": lambda: K.CosineKernel(),
        "LinearKernel": lambda: K.LinearKernel(), "RQKernel": lambda: K.RQKernel(), "PolynomialKernel": lambda: K.PolynomialKernel(power=2),
        "ConstantKernel": lambda: K.ConstantKernel(), "ConstantMean": lambda: M.ConstantMean(constant_constraint=gpytorch.constraints.Positive()),
        "IndexKernel": lambda: K.IndexKernel(num_tasks=3), "ArcKernel": lambda: K.ArcKernel(K.MaternKernel(nu=2.5), ard_num_dims=2),
        "CylindricalKernel": lambda: K.CylindricalKernel(5, K.MaternKernel(nu=2.5)), "HammingIMQKernel": lambda: K.HammingIMQKernel(vocab_size=3),
        "SpectralMixtureKernel": lambda: K.SpectralMixtureKernel(num_mixtures=2, ard_num_dims=1),
        "SpectralDeltaKernel": lambda: K.SpectralDeltaKernel(num_dims=1, num_deltas=4), "NewtonGirardAdditiveKernel": lambda: K.NewtonGirardAdditiveKernel(K.RBFKernel(), 2),
        "_HomoskedasticNoiseBase": lambda: L.GaussianLikelihood().noise_covar, "StudentTLikelihood": lambda: L.StudentTLikelihood(),
        "BetaLikelihood": lambda: L.BetaLikelihood(), "LaplaceLikelihood": lambda: L.LaplaceLikelihood(),
        "_MultitaskGaussianLikelihoodBase": lambda: L.MultitaskGaussianLikelihood(num_tasks=2),
        "MultitaskGaussianLikelihood": lambda: L.MultitaskGaussianLikelihood(num_tasks=2),
    }
    return mk


def replay_site(model, params, clause, info):
    import torch
    cname, raw = params[1], params[2]
    mk = _instances()
    if cname not in mk:
        return {"violates": None, "detail": f"no instance recipe for {cname}"}
    m = mk[cname]()
    is_prior_case = len(params) > 3 and params[3] not in KINDS
    if len(params) > 3 and params[3] in KINDS:
        # the case's constraint kind, registered through the public API (replaces the constructor's)
        import gpytorch.constraints as GC
        lo_ = 0.25
        newc = {"Interval": lambda: GC.Interval(lo_, lo_ + 7.0), "GreaterThan": lambda: GC.GreaterThan(lo_),
                "Positive": lambda: GC.Positive(), "LessThan": lambda: GC.LessThan(lo_ + 7.0)}[params[3]]()
        m.register_constraint(raw, newc)
    prop = info.get("property") if isinstance(info, dict) and info.get("property") else None
    if prop is None:
        prop = params[3] if len(params) > 3 and params[3] not in KINDS else raw.replace("raw_", "")
    cur = getattr(m, prop)
    cons = getattr(m, raw + "_constraint")
    detail, bad = [], False
    ok = torch.allclose(cur, cons.transform(getattr(m, raw)))
    detail.append(f"{cname}.{prop} == constraint.transform({raw}): {ok}")
    bad |= not ok
    lo = float(cons.lower_bound.min()) if torch.isfinite(cons.lower_bound).all() else None
    base = (lo if lo is not None else float(cons.upper_bound.max()) - 5.0)
    for val in (base + 0.37, base + 1.9):
        v = torch.full_like(cur, val)
        try:
            setattr(m, prop, v)
            rb = getattr(m, prop)
            ok = torch.allclose(rb, v, rtol=1e-5, atol=1e-6)
            detail.append(f"set {prop}={val:.3f} reads back {rb.flatten()[0].item():.6f}: {ok}")
            bad |= not ok
        except Exception as e:
            detail.append(f"set {prop}={val:.3f} raised {type(e).__name__}: {e}")
            bad = True
    if clause.startswith("prior.") or is_prior_case:
        # the closures registered with the prior, on a real instance that was built with a prior
        try:
            import gpytorch
            pm = _instances_with_prior(cname, prop)
            if pm is None:
                detail.append("no recipe to build this module with a prior")
            else:
                prior, closure, setting = pm._priors[prop + "_prior"]
                g = torch.Generator().manual_seed(3)
                for par in pm.parameters():  # distinct raw values, so that reading a different parameter shows
                    par.data += 0.3 + 0.5 * torch.rand(par.shape, generator=g)
                cur = getattr(pm, prop)
                ok = torch.allclose(closure(pm), cur)
                detail.append(f"closure(m) == m.{prop}: {ok}")
                bad |= not ok
                if setting is not None:
                    v = torch.full_like(cur, 0.731)
                    setting(pm, v)
                    ok = torch.allclose(getattr(pm, prop), v, rtol=1e-5, atol=1e-6)
                    detail.append(f"setting_closure(m, 0.731) reads back: {ok}")
                    bad |= not ok
        except Exception as e:
            detail.append(f"prior closure raised {type(e).__name__}: {e}")
            bad = True
    return {"violates": bad, "detail": "; ".join(detail),
            "entry": {"module": "contracts.C17_constraints", "function": "replay_site", "args": [model, list(params), clause, info]}}


def _instances_with_prior(cname, prop):
    import gpytorch
    from gpytorch import kernels as K, likelihoods as L, means as M
    P = gpytorch.priors.GammaPrior(2.0, 2.0)
    kw = {prop + "_prior": P}
    rec = {
        "ScaleKernel": lambda: K.ScaleKernel(K.RBFKernel(), **kw), "Kernel": lambda: K.RBFKernel(**kw),
        "PeriodicKernel": lambda: K.PeriodicKernel(**kw), "CosineKernel": lambda: K.CosineKernel(**kw),
        "LinearKernel": lambda: K.LinearKernel(**kw), "PolynomialKernel": lambda: K.PolynomialKernel(power=2, **kw),
        "ConstantKernel": lambda: K.ConstantKernel(**kw), "ArcKernel": lambda: K.ArcKernel(K.MaternKernel(nu=2.5), **kw),
        "CylindricalKernel": lambda: K.CylindricalKernel(5, K.MaternKernel(nu=2.5), **kw),
        "HammingIMQKernel": lambda: K.HammingIMQKernel(vocab_size=3, **kw), "IndexKernel": lambda: K.IndexKernel(num_tasks=3, prior=P),
        "_HomoskedasticNoiseBase": lambda: L.GaussianLikelihood(noise_prior=P).noise_covar,
        "BetaLikelihood": lambda: L.BetaLikelihood(**kw), "LaplaceLikelihood": lambda: L.LaplaceLikelihood(**kw),
        "StudentTLikelihood": lambda: L.StudentTLikelihood(**kw), "RQKernel": lambda: K.RQKernel(**kw),
    }
    f = rec.get(cname)
    if f is None:
        return None
    try:
        return f()
    except TypeError:
        return None


# ------------------------------------------------------------------ rejected assignments leave the parameter alone --------------------
@case("C17", clause="initialize_rejects_without_writing", expand=lambda ix: [(kind,) for kind in ("tensor", "float")], replay=lambda *a: replay_reject(*a),
      functions=["gpytorch.module.Module.initialize", "gpytorch.module.Module.constraint_for_parameter_name"])
def initialize_rejects_without_writing(c, kind):
    """Module.initialize(raw_p=v) with an enforced constraint whose check_raw(v) is the callee contract (an arbitrary verdict): if the verdict is 'inside', the
    parameter cell holds v afterwards (same Parameter object); if it is 'outside', RuntimeError is raised and the parameter still holds its previous values --
    a rejected assignment must not be observable afterwards ('after any sequence of assignments ... reads back inside its bounds')"""
    it, ctx = c.it, c.ctx
    d = c.size("d")
    ci = it.index.get_class("gpytorch.module.Module")
    o = VObj(ci, label="m")
    p = sym_tensor("raw_param", [d.t])
    p.meta["is_parameter"] = True
    old = p.frozen()
    verdict = c.ctx.fresh_bool("check_raw_verdict") if hasattr(c.ctx, "fresh_bool") else z3.Bool("check_raw_verdict")
    seen = []
    cons = Stub("constraint", attrs={"enforced": TRUE}, methods={"check_raw": lambda v: (seen.append(v), VBool(verdict))[1]}, isa=("Interval", "Module"))
    o.fields.update({"_parameters": VDict({"raw_p": p}), "_buffers": VDict(), "_modules": VDict({"raw_p_constraint": cons}), "_constraints": VDict({"raw_p_constraint": cons}),
                     "_priors": VDict(), "_added_loss_terms": VDict(), "_strict_init": TRUE, "_load_strict_shapes": TRUE, "training": TRUE})
    if kind == "tensor":
        V = sym_tensor("value", [d.t])
    else:
        V = VNum(c.real("value").t)
    exc = c.raises(lambda: it.call(ctx, c.getattr(o, "initialize"), [], {"raw_p": V}))
    k = ivar("k")
    c.assume(z3.And(k >= 0, k < d.t))
    c.prove("initialize.verdict_asked_of_the_constraint_on_the_new_value", z3.BoolVal(len(seen) == 1 and (seen[0] is V or kind == "float")))
    now = o.fields["_parameters"].d.get("raw_p")
    c.prove("initialize.parameter_cell_kept", z3.BoolVal(now is p))
    if exc is None:
        c.cover("accepted")
        c.prove("initialize.accepted_only_when_the_verdict_is_inside", verdict)
        want = V.at([k]) if kind == "tensor" else V.t
        c.prove("initialize.accepted_value_is_stored", now.at_dims([k]) == want)
    else:
        c.cover("rejected")
        c.prove("initialize.rejected_only_when_the_verdict_is_outside_with_RuntimeError", z3.And(z3.Not(verdict), z3.BoolVal(exc.clsname == "RuntimeError")))
        c.prove("initialize.rejected_assignment_leaves_the_parameter_unchanged", now.at_dims([k]) == old.at([k]))


def replay_reject(model, params, clause, info):
    """real modules: an out-of-bounds assignment through the public setter / initialize must raise and leave the raw parameter bit-identical"""
    import torch
    import gpytorch
    (kind,) = params
    bad = []
    lik = gpytorch.likelihoods.GaussianLikelihood(noise_constraint=gpytorch.constraints.Interval(0.1, 2.0)).double()
    ker = gpytorch.kernels.RBFKernel(ard_num_dims=2, lengthscale_constraint=gpytorch.constraints.GreaterThan(0.5)).double()
    lik.noise = 0.7
    ker.lengthscale = torch.tensor([[0.9, 1.4]], dtype=torch.double)
    for name, mod, raw, badval in (("noise", lik, lambda: lik.noise_covar.raw_noise, 5.0), ("lengthscale", ker, lambda: ker.raw_lengthscale, 0.01)):
        before = raw().detach().clone()
        val = torch.full_like(getattr(mod, name), badval) if kind == "tensor" else badval
        try:
            setattr(mod, name, val)
            bad.append(f"{name} = {badval} (outside the constraint) was accepted")
        except RuntimeError:
            pass
        after = raw().detach()
        if not torch.equal(before, after):
            bad.append(f"rejected {name} = {badval}: raw parameter changed from {before.flatten().tolist()} to {after.flatten().tolist()}")
        if not torch.isfinite(getattr(mod, name)).all():
            bad.append(f"{name} reads back non-finite after the rejected assignment")
    return {"violates": bool(bad), "detail": "; ".join(bad)[:700] or "rejected assignments leave the raw parameters bit-identical on the real code",
            "entry": {"module": "contracts.C17_constraints", "function": "replay_reject", "args": [model, list(params), clause, info]}}
