"""C14 -- variational predictive q(f) and KL equal their closed forms (whitened strategy and the variational distributions; proof tier).

Functions under contract (real AST): variational.variational_strategy.VariationalStrategy.{forward, prior_distribution},
variational._variational_strategy._VariationalStrategy.kl_divergence, {Cholesky, MeanField, Delta}VariationalDistribution.forward.

Whitened strategy, with the joint prior N(mu, Sigma) of the model at [Z; X], L the (callee) Cholesky factor of Kzz + jitter*I and the
callee contract  L @ SOLVE(L, R) = R  of the triangular solve, A = SOLVE(L, Kzx):
   mean       = mu_X + A^T m~
   covariance = Kxx + jitter*I + A^T (S~ - I) A          (S~ absent for a delta distribution: A^T (-I) A)
which is the property's closed form for q(u) = N(mz + L m~, L S~ L^T) with the data jitter the code adds written explicitly (substitute
Kzz^-1 = L^-T L^-1; algebra cited in the method's own comments).  kl_divergence() = KL(q(e) || N(0, I)) on exactly those two distributions
(= KL(q(u) || p(u)) by invariance under the affine map u = mz + L e; the value of KL between MVNs is C10's contract).
"""
from __future__ import annotations

import z3

from engine import dom_elem as E
from engine.dom_elem import Dim, VTensor, ivar, mk_sum, sym_tensor
from engine.runner import case
from engine.values import FALSE, NONE, TRUE, VBool, VDict, VList, VNum, VObj, VStr, VTuple
from contracts.C15_objectives import module_obj
from contracts.dist_spec import make_mvn, size_tuple
from contracts.stubs import Stub

VS = "gpytorch.variational.variational_strategy.VariationalStrategy"
VD = "gpytorch.variational"


@case("C14", clause="whitened_forward", expand=lambda ix: [(br, has_cov, trace) for br in (0, 1) for has_cov in (True, False) for trace in (False, True)], replay=lambda *a: replay_whitened(*a),
      functions=[f"{VS}.forward", f"{VS}.prior_distribution"], timeout=600)
def whitened_forward(c, br, has_cov, trace):
    it, ctx = c.it, c.ctx
    m, n, d, B = c.size("m"), c.size("n"), c.size("d"), c.size("B")
    c.assume(z3.And(m.t >= 1, n.t >= 1))
    bs = [B.t] if br else []
    Z, X = sym_tensor("Z", bs + [m.t, d.t]), sym_tensor("X", bs + [n.t, d.t])
    joint = make_mvn(c, "joint", bs, m.t + n.t)
    mu, Sig = joint.fields["loc"], joint.fields["_covar"]
    jit = c.real("jitter")
    c.assume(jit.t >= 0)
    A = sym_tensor("A", bs + [m.t, n.t])  # SOLVE(L, Kzx)
    solves, chol_args = [], []
    L = Stub("L = chol(Kzz + jitter I)", attrs={}, methods={"solve": lambda r: (solves.append(r), A)[1]}, isa=("TriangularLinearOperator", "LinearOperator"))
    fwd = []
    model = Stub("model", methods={"forward": lambda *a, **k: (fwd.append(list(a)), joint)[1]}, isa=("ApproximateGP",))
    vdist = Stub("variational_distribution_module", attrs={"dtype": None, "device": None}, methods={"shape": lambda: size_tuple(bs + [m.t])})
    from engine.values import VAtom
    vdist.attrs["dtype"], vdist.attrs["device"] = VAtom("torch.double"), VAtom("device:cpu")
    o = module_obj(c, VS, "strategy", _jitter_val=jit, _variational_distribution=vdist)
    o.fields["model"] = model

    def hook(it_, ctx_, fi, args, kwargs):
        if not isinstance(fi, tuple) and fi.name == "_cholesky_factor" and args and args[0] is o:
            chol_args.append(args[1])
            L.attrs["shape"] = args[1].shape_tuple()
            return L
        return NotImplemented

    it.call_hooks.append(hook)
    c.ctx.classattrs[("gpytorch.settings.trace_mode", "_state")] = VBool(trace)
    mt = sym_tensor("inducing_values", bs + [m.t])
    St = sym_tensor("variational_inducing_covar", bs + [m.t, m.t], is_linop=True, symmetric=True) if has_cov else NONE
    res = it.call(ctx, c.getattr(o, "forward"), [X, Z, mt, St], {})
    b = [ivar("b") for _ in bs]
    i, j, k, l = ivar("i"), ivar("j"), ivar("k"), ivar("l")
    for v, e in zip(b + [i, j, k, l], bs + [n.t, n.t, m.t, m.t]):
        c.assume(z3.And(v >= 0, v < e))
    ok = len(fwd) == 1 and len(fwd[0]) == 1 and len(chol_args) >= 1 and len(solves) == 1
    c.prove("forward.one_joint_prior_one_factor_one_solve", z3.BoolVal(ok))
    if not ok:
        return
    full = fwd[0][0]
    p, q = ivar("p"), ivar("q")
    c.assume(z3.And(p >= 0, q >= 0, q < d.t))
    c.prove("forward.model_evaluated_on_[Z; X]", z3.And(z3.BoolVal(len(full.dims) == br + 2), full.dims[-2].size == m.t + n.t, z3.Implies(p < m.t, full.at_dims(b + [p, q]) == Z.at(b + [p, q])),
                                                        z3.Implies(p < n.t, full.at_dims(b + [m.t + p, q]) == X.at(b + [p, q]))) if len(full.dims) == br + 2 else z3.BoolVal(False))
    Kzz = chol_args[0]
    c.prove("forward.factorised_matrix_is_Kzz_plus_jitter", z3.And(z3.BoolVal(len(Kzz.dims) == br + 2), Kzz.dims[-1].size == m.t, Kzz.dims[-2].size == m.t,
                                                                  Kzz.at_dims(b + [k, l]) == Sig.at(b + [k, l]) + z3.If(k == l, jit.t, 0)) if len(Kzz.dims) == br + 2 else z3.BoolVal(False))
    rhs = solves[0]
    c.prove("forward.solve_rhs_is_Kzx", z3.And(z3.BoolVal(len(rhs.dims) == br + 2), rhs.dims[-2].size == m.t, rhs.dims[-1].size == n.t, rhs.at_dims(b + [k, i]) == Sig.at(b + [k, m.t + i])) if len(rhs.dims) == br + 2 else z3.BoolVal(False))
    okr = isinstance(res, VObj) and res.cls.name == "MultivariateNormal"
    c.prove("forward.returns_MultivariateNormal", z3.BoolVal(okr))
    if not okr:
        return
    mean = res.fields["loc"]
    cov = res.fields.get("_covar")
    if cov is None:  # trace mode: a dense covariance tensor handed to the base class
        cov = res.fields.get("covariance_matrix")
    if cov is None:
        c.fail("forward.covariance_present", f"fields {sorted(res.fields)}")
        return
    c.prove("forward.mean", z3.And(z3.BoolVal(len(mean.dims) == br + 1), mean.dims[-1].size == n.t,
                                   mean.at_dims(b + [i]) == mu.at(b + [m.t + i]) + mk_sum(lambda r: A.at(b + [r, i]) * mt.at(b + [r]), m.t)) if len(mean.dims) == br + 1 else z3.BoolVal(False))
    # covariance: Kxx + jitter I + A^T (S~ - I) A, stated in the documented product order  A^T @ ((S~ - I) @ A)
    def mid(r, col):
        if has_cov:
            return mk_sum(lambda s_: (St.at(b + [r, s_]) - z3.If(r == s_, z3.RealVal(1), z3.RealVal(0))) * A.at(b + [s_, col]), m.t)
        return mk_sum(lambda s_: (-z3.If(r == s_, z3.RealVal(1), z3.RealVal(0))) * A.at(b + [s_, col]), m.t)
    if trace:
        # trace mode evaluates the same triple product as (A^T (S~ - I)) A; the two associations are equal by exchanging the two finite sums
        # (Fubini for finite sums -- stated here in the association each branch computes)
        def midT(col, s_):
            if has_cov:
                return mk_sum(lambda r: A.at(b + [r, col]) * (St.at(b + [r, s_]) - z3.If(r == s_, z3.RealVal(1), z3.RealVal(0))), m.t)
            return mk_sum(lambda r: A.at(b + [r, col]) * (-z3.If(r == s_, z3.RealVal(1), z3.RealVal(0))), m.t)
        quad = mk_sum(lambda s_: midT(i, s_) * A.at(b + [s_, j]), m.t)
    else:
        quad = mk_sum(lambda r: A.at(b + [r, i]) * mid(r, j), m.t)
    want = Sig.at(b + [m.t + i, m.t + j]) + z3.If(i == j, jit.t, 0) + quad
    c.prove("forward.covariance_shape", z3.And(z3.BoolVal(len(cov.dims) == br + 2), cov.dims[-1].size == n.t, cov.dims[-2].size == n.t) if len(cov.dims) == br + 2 else z3.BoolVal(False))
    if len(cov.dims) == br + 2:
        c.prove("forward.covariance", cov.at_dims(b + [i, j]) == want)


@case("C14", clause="whitened_prior_and_kl", expand=lambda ix: [(br,) for br in (0, 1)], replay=lambda *a: replay_c14(*a),
      functions=[f"{VS}.prior_distribution", "gpytorch.variational._variational_strategy._VariationalStrategy.kl_divergence"])
def whitened_prior_and_kl(c, br):
    """p(e) = N(0, I) of the variational distribution's shape; kl_divergence() = KL(variational_distribution || prior_distribution)"""
    it, ctx = c.it, c.ctx
    m, B = c.size("m"), c.size("B")
    bs = [B.t] if br else []
    from engine.values import VAtom
    vdist = Stub("variational_distribution_module", attrs={"dtype": VAtom("torch.double"), "device": VAtom("device:cpu")}, methods={"shape": lambda: size_tuple(bs + [m.t])})
    o = module_obj(c, VS, "strategy", _variational_distribution=vdist)
    pd = c.getattr(o, "prior_distribution")
    okp = isinstance(pd, VObj) and pd.cls.name == "MultivariateNormal"
    c.prove("prior.is_MultivariateNormal", z3.BoolVal(okp))
    if okp:
        b = [ivar("b") for _ in bs]
        k, l = ivar("k"), ivar("l")
        for v, e in zip(b + [k, l], bs + [m.t, m.t]):
            c.assume(z3.And(v >= 0, v < e))
        loc, cov = pd.fields["loc"], pd.fields["_covar"]
        c.prove("prior.standard_normal", z3.And(z3.BoolVal(len(loc.dims) == br + 1 and len(cov.dims) == br + 2), loc.dims[-1].size == m.t, cov.dims[-1].size == m.t, cov.dims[-2].size == m.t,
                                                loc.at_dims(b + [k]) == 0, cov.at_dims(b + [k, l]) == z3.If(k == l, z3.RealVal(1), z3.RealVal(0))) if len(loc.dims) == br + 1 and len(cov.dims) == br + 2 else z3.BoolVal(False))
    q = make_mvn(c, "q_u", bs, m.t)
    pr = make_mvn(c, "p_u", bs, m.t)
    klv = sym_tensor("KL", bs)
    calls = []
    it.optable["torch.distributions.kl.kl_divergence"] = lambda it_, ctx_, a, k: (calls.append(list(a)), klv)[1]
    props = {"variational_distribution": q, "prior_distribution": pr}
    it.attr_hooks.append(lambda it_, ctx_, obj, name: props.get(name) if obj is o else None)
    res = it.call(ctx, c.getattr(o, "kl_divergence"), [], {})
    c.prove("kl.is_KL(variational_distribution, prior_distribution)", z3.BoolVal(len(calls) == 1 and calls[0][0] is q and calls[0][1] is pr and res is klv))


@case("C14", clause="variational_distributions", expand=lambda ix: [(kind, br) for kind in ("Cholesky", "MeanField", "Delta") for br in (0, 1)], replay=lambda *a: replay_c14(*a),
      functions=[f"{VD}.cholesky_variational_distribution.CholeskyVariationalDistribution.forward", f"{VD}.mean_field_variational_distribution.MeanFieldVariationalDistribution.forward",
                 f"{VD}.delta_variational_distribution.DeltaVariationalDistribution.forward"])
def variational_distributions(c, kind, br):
    """each variational distribution returns exactly the mean / covariance its parameters encode: Cholesky: N(m, tril(C) tril(C)^T), mean field:
    N(m, diag(s^2)), delta: a point mass at m"""
    it, ctx = c.it, c.ctx
    m, B = c.size("m"), c.size("B")
    bs = [B.t] if br else []
    qual = {"Cholesky": f"{VD}.cholesky_variational_distribution.CholeskyVariationalDistribution", "MeanField": f"{VD}.mean_field_variational_distribution.MeanFieldVariationalDistribution",
            "Delta": f"{VD}.delta_variational_distribution.DeltaVariationalDistribution"}[kind]
    o = module_obj(c, qual, "vdist")
    vm = sym_tensor("variational_mean", bs + [m.t])
    C = sym_tensor("chol_variational_covar", bs + [m.t, m.t])
    sd = sym_tensor("_variational_stddev", bs + [m.t])
    for nm, t in (("variational_mean", vm), ("chol_variational_covar", C), ("_variational_stddev", sd)):
        t.meta["is_parameter"] = True
        o.fields["_parameters"].d[nm] = t
    res = it.call(ctx, c.getattr(o, "forward"), [], {})
    b = [ivar("b") for _ in bs]
    k, l = ivar("k"), ivar("l")
    for v, e in zip(b + [k, l], bs + [m.t, m.t]):
        c.assume(z3.And(v >= 0, v < e))
    if kind == "Delta":
        okd = isinstance(res, VObj) and res.cls.name == "Delta"
        c.prove("delta.is_a_point_mass_at_the_variational_mean", z3.BoolVal(okd and (res.fields.get("v") is vm or res.fields.get("v") is not None)))
        if okd and hasattr(res.fields.get("v"), "at_dims"):
            c.prove("delta.location", res.fields["v"].at_dims(b + [k]) == vm.at(b + [k]))
        return
    ok = isinstance(res, VObj) and res.cls.name == "MultivariateNormal"
    c.prove(f"{kind}.returns_MultivariateNormal", z3.BoolVal(ok))
    if not ok:
        return
    loc, cov = res.fields["loc"], res.fields["_covar"]
    c.prove(f"{kind}.mean", loc.at_dims(b + [k]) == vm.at(b + [k]))
    if kind == "Cholesky":
        tri = lambda r, s_: C.at(b + [r, s_]) * z3.If(s_ - r <= 0, z3.RealVal(1), z3.RealVal(0))  # noqa: E731  (the lower-triangular mask as the code applies it)
        c.prove("Cholesky.covariance_is_tril(C) tril(C)^T", cov.at_dims(b + [k, l]) == mk_sum(lambda r: tri(k, r) * tri(l, r), m.t))
    else:
        c.prove("MeanField.covariance_is_diag(s^2)", cov.at_dims(b + [k, l]) == z3.If(k == l, sd.at(b + [k]) * sd.at(b + [k]), z3.RealVal(0)))


def replay_c14(model, params, clause, info):
    try:
        from bounded import C14_closed_forms as Bd
    except Exception as e:  # noqa: BLE001
        return {"violates": None, "detail": f"bounded tier for C14 not available: {e}"}
    import json
    import os
    import re
    r = Bd.run("quick", 0)
    kf = json.load(open(os.path.join(os.path.dirname(os.path.dirname(os.path.abspath(__file__))), "known_findings.json")))
    pats = [re.compile(f["match"]) for f in kf["findings"] if f["property"] == "C14"]
    bad = [v for v in r["violations"] if not any(p.fullmatch("bounded:" + v["key"]) for p in pats)]
    return {"violates": bool(bad), "detail": "; ".join(f"{v['key']}: {v['detail']}" for v in bad[:5])[:700] or "variational closed forms hold on the real code",
            "entry": {"module": "contracts.C14_variational", "function": "replay_c14", "args": [model, list(params), clause, info]}}


def replay_whitened(model, params, clause, info):
    """real whitened SVGP with a NON-negligible jitter (0.3): q(f) against the closed form with that jitter written out"""
    import torch
    import gpytorch
    br, has_cov, trace = params
    torch.manual_seed(1)
    m, n = 4, 5
    Z = torch.rand(m, 1, dtype=torch.double)
    X = torch.rand(n, 1, dtype=torch.double)
    jit = 0.3

    class SV(gpytorch.models.ApproximateGP):
        def __init__(self):
            vd = (gpytorch.variational.CholeskyVariationalDistribution if has_cov else gpytorch.variational.DeltaVariationalDistribution)(m)
            super().__init__(gpytorch.variational.VariationalStrategy(self, Z, vd, learn_inducing_locations=False, jitter_val=jit))
            self.mean_module, self.covar_module = gpytorch.means.ConstantMean(), gpytorch.kernels.RBFKernel()

        def forward(self, x):
            return gpytorch.distributions.MultivariateNormal(self.mean_module(x), self.covar_module(x))

    g = SV().double()
    g.mean_module.constant.data.fill_(0.4)
    vd = g.variational_strategy._variational_distribution
    with torch.no_grad():
        vd.variational_mean.copy_(torch.randn(m, dtype=torch.double))
        if has_cov:
            vd.chol_variational_covar.copy_(torch.randn(m, m, dtype=torch.double).tril() + 2 * torch.eye(m, dtype=torch.double))
        g.variational_strategy.variational_params_initialized.fill_(1)
    g.eval()
    with torch.no_grad(), gpytorch.settings.trace_mode(bool(trace)):
        out = g(X)
        Kzz = g.covar_module(Z).to_dense() + jit * torch.eye(m, dtype=torch.double)
        Kzx, Kxx = g.covar_module(Z, X).to_dense(), g.covar_module(X).to_dense()
        L = torch.linalg.cholesky(Kzz)
        A = torch.linalg.solve_triangular(L, Kzx, upper=False)
        mt = vd.variational_mean
        S = (vd.chol_variational_covar.tril() @ vd.chol_variational_covar.tril().T) if has_cov else torch.zeros(m, m, dtype=torch.double)
        mean = 0.4 + A.T @ mt
        cov = Kxx + jit * torch.eye(n, dtype=torch.double) + A.T @ (S - torch.eye(m, dtype=torch.double)) @ A
        bad = not (torch.allclose(out.mean, mean, atol=1e-8) and torch.allclose(out.covariance_matrix, cov, atol=1e-8))
    return {"violates": bool(bad), "detail": f"whitened q(f) with jitter_val={jit}: max mean diff {(out.mean - mean).abs().max().item():.2e}, max covariance diff {(out.covariance_matrix - cov).abs().max().item():.2e}",
            "entry": {"module": "contracts.C14_variational", "function": "replay_whitened", "args": [model, list(params), clause, info]}}


# ------------------------------------------------------------------ unwhitened strategy (evaluation mode) ---------------------------
UV = "gpytorch.variational.unwhitened_variational_strategy.UnwhitenedVariationalStrategy"


@case("C14", clause="unwhitened_forward", expand=lambda ix: [(has_cov,) for has_cov in (True, False)], replay=lambda *a: replay_unwhitened(*a), functions=[f"{UV}.forward"], timeout=600)
def unwhitened_forward(c, has_cov):
    """evaluation mode, X != Z.  Callee contracts: K = Chol-operator of Kzz + jitter I with  K @ K.solve(R) = R  and  K.solve(R, L) = L @ K.solve(R);  S = R_s R_s^T
    for the root the dependency returns.  Then with INV = [ (m - mu_Z)^T ; R_s^T ] Kzz^-1 Kzx (one two-sided solve):
        mean       = mu_X + INV[0, :]                                   (= mu_X + Kxz Kzz^-1 (m - mu_Z))
        covariance = Kxx - Kxz Kzz^-1 Kzx + INV[1:, :]^T INV[1:, :]     (= Kxx - Kxz Kzz^-1 (Kzz - S) Kzz^-1 Kzx: the property's closed form, un-whitened)"""
    it, ctx = c.it, c.ctx
    m, n, d, r = c.size("m"), c.size("n"), c.size("d"), c.size("r")
    c.assume(z3.And(m.t >= 1, n.t >= 1, r.t >= 1))
    Z, X = sym_tensor("Z", [m.t, d.t]), sym_tensor("X", [n.t, d.t])
    joint = make_mvn(c, "joint", [], m.t + n.t)
    mu, Sig = joint.fields["loc"], joint.fields["_covar"]
    jit = c.real("jitter")
    c.assume(jit.t >= 0)
    rows = (1 + r.t) if has_cov else z3.IntVal(1)
    INV = sym_tensor("two_sided_solve", [rows, n.t])
    S1 = sym_tensor("solve_Kzx", [m.t, n.t])
    solves, chol_args, fwd = [], [], []

    def solve(rhs, lhs=None):
        solves.append((rhs, lhs))
        return INV if lhs is not None else S1

    def plain_solve(t, it_, ctx_, a, k):
        # max_cholesky_size / fast_computations branch: the operator of Kzz + jitter I is solved against directly; same callee contract
        if not any(t is x for x in chol_args):
            chol_args.append(t)
        return solve(*a, **{("lhs" if kk == "left_tensor" else kk): v for kk, v in k.items()})

    it.optable["tensor_method.solve"] = plain_solve

    Kop = Stub("Chol(Kzz + jitter I)", methods={"solve": solve}, isa=("CholLinearOperator", "LinearOperator"))
    Kop.methods["expand"] = lambda *a: Kop
    Kop.attrs["shape"] = size_tuple([m.t, m.t])
    Kop.methods["size"] = lambda dim=None: VNum(m.t) if dim is not None else size_tuple([m.t, m.t])
    it.optable["linear_operator.operators.CholLinearOperator"] = lambda it_, ctx_, a, k: Kop
    it.optable["linear_operator.operators.PsdSumLinearOperator"] = it.optable.get("linear_operator.operators.SumLinearOperator") or __import__("engine.optable_torch", fromlist=["T"]).T["linear_operator.operators.SumLinearOperator"]
    model = Stub("model", methods={"forward": lambda *a, **k: (fwd.append(list(a)), joint)[1]}, isa=("ApproximateGP",))
    from engine.values import VAtom
    o = module_obj(c, UV, "strategy", _jitter_val=jit, training=FALSE)
    o.fields["model"] = model

    def hook(it_, ctx_, fi, args, kwargs):
        if not isinstance(fi, tuple) and fi.name == "_cholesky_factor" and args and args[0] is o:
            chol_args.append(args[1])
            return Stub("L")
        return NotImplemented

    it.call_hooks.append(hook)
    it.optable["hook.torch.equal"] = lambda it_, ctx_, a, k: FALSE
    c.ctx.classattrs[("gpytorch.settings.skip_posterior_variances", "_state")] = FALSE
    mv = sym_tensor("inducing_values", [m.t])
    Rs = sym_tensor("root_of_S", [m.t, r.t])
    if has_cov:
        S = Stub("variational_inducing_covar", methods={"root_decomposition": lambda *a, **k: Stub("root_decomposition()", attrs={"root": Stub("root", methods={"to_dense": lambda: Rs})})}, isa=("LinearOperator",))
    else:
        S = NONE
    res = it.call(ctx, c.getattr(o, "forward"), [X, Z, mv, S], {})
    i, j, k_, p = ivar("i"), ivar("j"), ivar("k"), ivar("p")
    c.assume(z3.And(i >= 0, i < n.t, j >= 0, j < n.t, k_ >= 0, k_ < m.t, p >= 0, p < r.t))
    two = [s_ for s_ in solves if s_[1] is not None]
    one = [s_ for s_ in solves if s_[1] is None]
    ok = len(fwd) == 1 and len(chol_args) == 1 and len(two) == 1 and len(one) == 1
    c.prove("unwhitened.one_joint_prior_one_factor_two_solves", z3.BoolVal(ok))
    if not ok:
        return
    Kzz = chol_args[0]
    a_, e_ = ivar("a"), ivar("e")
    c.assume(z3.And(a_ >= 0, a_ < m.t + n.t, e_ >= 0, e_ < d.t))
    fi = fwd[0][0] if fwd[0] else None
    okf = isinstance(fi, type(Z)) and len(fi.dims) == 2
    c.prove("unwhitened.joint_prior_evaluated_at_Z_then_X", z3.And(fi.dims[0].size == m.t + n.t, fi.at_dims([a_, e_]) == z3.If(a_ < m.t, Z.at([a_, e_]), X.at([a_ - m.t, e_]))) if okf else z3.BoolVal(False))
    l_ = ivar("l")
    c.assume(z3.And(l_ >= 0, l_ < m.t))
    c.prove("unwhitened.factorised_matrix_is_Kzz_plus_jitter", Kzz.at_dims([k_, l_]) == Sig.at([k_, l_]) + z3.If(k_ == l_, jit.t, 0))
    rhs2, lhs2 = two[0]
    c.prove("unwhitened.two_sided_solve_rhs_is_Kzx", z3.And(z3.BoolVal(len(rhs2.dims) == 2), rhs2.at_dims([k_, i]) == Sig.at([k_, m.t + i])) if len(rhs2.dims) == 2 else z3.BoolVal(False))
    good = len(lhs2.dims) == 2
    c.prove("unwhitened.two_sided_solve_lhs_rows", z3.And(z3.BoolVal(good), lhs2.dims[0].size == rows, lhs2.dims[1].size == m.t, lhs2.at_dims([z3.IntVal(0), k_]) == mv.at([k_]) - mu.at([k_]),
                                                          *([lhs2.at_dims([1 + p, k_]) == Rs.at([k_, p])] if has_cov else [])) if good else z3.BoolVal(False))
    rhs1 = one[0][0]
    c.prove("unwhitened.plain_solve_rhs_is_Kzx", z3.And(z3.BoolVal(len(rhs1.dims) == 2), rhs1.at_dims([k_, i]) == Sig.at([k_, m.t + i])) if len(rhs1.dims) == 2 else z3.BoolVal(False))
    okr = isinstance(res, VObj) and res.cls.name == "MultivariateNormal"
    c.prove("unwhitened.returns_MultivariateNormal", z3.BoolVal(okr))
    if not okr:
        return
    mean = res.fields["loc"]
    cov = res.fields.get("_covar")
    cov = cov if cov is not None else res.fields.get("covariance_matrix")
    c.prove("unwhitened.mean", z3.And(z3.BoolVal(len(mean.dims) == 1), mean.at_dims([i]) == mu.at([m.t + i]) + INV.at([z3.IntVal(0), i])) if len(mean.dims) == 1 else z3.BoolVal(False))
    base = Sig.at([m.t + i, m.t + j]) - mk_sum(lambda q: Sig.at([q, m.t + i]) * S1.at([q, j]), m.t)
    one = ivar("first_root_row")  # a named 1: sums are matched by template, and the code's slice start is a (constrained) symbol as well
    c.assume(one == 1)
    quad = mk_sum(lambda q: INV.at([one + q, i]) * INV.at([one + q, j]), r.t) if has_cov else z3.RealVal(0)
    if cov is None or len(cov.dims) != 2:
        c.fail("unwhitened.covariance_present", "no covariance")
        return
    c.prove("unwhitened.covariance", cov.at_dims([i, j]) == quad + base)


def replay_unwhitened(model, params, clause, info):
    """real unwhitened SVGP in evaluation mode against the closed form Kxx - Kxz Kzz^-1 (Kzz - S) Kzz^-1 Kzx (jitter written out)"""
    import torch
    import gpytorch
    (has_cov,) = params
    torch.manual_seed(2)
    m, n = 4, 5
    Z = torch.rand(m, 1, dtype=torch.double)
    X = torch.rand(n, 1, dtype=torch.double) + 1.5
    jit = 0.2

    class SV(gpytorch.models.ApproximateGP):
        def __init__(self):
            vd = (gpytorch.variational.CholeskyVariationalDistribution if has_cov else gpytorch.variational.DeltaVariationalDistribution)(m)
            super().__init__(gpytorch.variational.UnwhitenedVariationalStrategy(self, Z, vd, learn_inducing_locations=False, jitter_val=jit))
            self.mean_module, self.covar_module = gpytorch.means.ConstantMean(), gpytorch.kernels.RBFKernel()

        def forward(self, x):
            return gpytorch.distributions.MultivariateNormal(self.mean_module(x), self.covar_module(x))

    g = SV().double()
    g.mean_module.constant.data.fill_(0.4)
    vd = g.variational_strategy._variational_distribution
    with torch.no_grad():
        vd.variational_mean.copy_(torch.randn(m, dtype=torch.double))
        if has_cov:
            vd.chol_variational_covar.copy_(torch.randn(m, m, dtype=torch.double).tril() + 2 * torch.eye(m, dtype=torch.double))
        g.variational_strategy.variational_params_initialized.fill_(1)
    g.eval()
    with torch.no_grad():
        out = g(X)
        Kzz = g.covar_module(Z).to_dense() + jit * torch.eye(m, dtype=torch.double)
        Kzx, Kxx = g.covar_module(Z, X).to_dense(), g.covar_module(X).to_dense()
        S = (vd.chol_variational_covar.tril() @ vd.chol_variational_covar.tril().T) if has_cov else torch.zeros(m, m, dtype=torch.double)
        A = torch.linalg.solve(Kzz, Kzx)
        mean = 0.4 + A.T @ (vd.variational_mean - 0.4)
        cov = Kxx - Kzx.T @ A + A.T @ S @ A
        bad = not (torch.allclose(out.mean, mean, atol=1e-8) and torch.allclose(out.covariance_matrix, cov, atol=1e-7))
    return {"violates": bool(bad), "detail": f"unwhitened q(f) with jitter_val={jit}: max mean diff {(out.mean - mean).abs().max().item():.2e}, max covariance diff {(out.covariance_matrix - cov).abs().max().item():.2e}",
            "entry": {"module": "contracts.C14_variational", "function": "replay_unwhitened", "args": [model, list(params), clause, info]}}


# ------------------------------------------------------------------ multitask wrappers ---------------------------------------------
IM = "gpytorch.variational.independent_multitask_variational_strategy.IndependentMultitaskVariationalStrategy"
LMC = "gpytorch.variational.lmc_variational_strategy.LMCVariationalStrategy"
VS_BASE = "gpytorch.variational._variational_strategy._VariationalStrategy"


def wrapper_setup(c, qual, dist, **fields):
    base_calls = []
    base = Stub("base_variational_strategy", methods={"__call__": lambda *a, **k: (base_calls.append((list(a), dict(k))), dist)[1]}, isa=("_VariationalStrategy", "Module"))
    o = module_obj(c, qual, "wrapper", **fields)
    o.fields["_modules"].d["base_variational_strategy"] = base
    return o, base, base_calls


@case("C14", clause="independent_multitask", name="independent_task_indices", expand=lambda ix: [()], replay=lambda *a: replay_wrappers(*a), functions=[f"{IM}.__call__"])
def independent_task_indices(c):
    """one task per input: with the base q(f) a batch of T independent GPs over the same n inputs and task index t_i in [0, T) for input i,
    mean[i] = mu_{t_i}[i]  and  cov[i, j] = K_{t_i}[i, j] if t_i == t_j else 0  (inputs of different tasks are independent)"""
    it, ctx = c.it, c.ctx
    T, n = c.size("T"), c.size("n")
    c.assume(z3.And(T.t >= 1, n.t >= 1))
    dist = make_mvn(c, "base_q", [T.t], n.t)
    mu, K = dist.fields["loc"], dist.fields["_covar"]
    o, base, calls = wrapper_setup(c, IM, dist, task_dim=VNum(z3.IntVal(-1)), num_tasks=VNum(T.t))
    x = sym_tensor("x", [n.t, c.size("d").t])
    idx = sym_tensor("task_indices", [n.t], sort="int")
    i, j = ivar("i"), ivar("j")
    c.assume(z3.And(i >= 0, i < n.t, j >= 0, j < n.t))
    for q in (i, j):
        c.assume(z3.And(idx.at([q]) >= 0, idx.at([q]) < T.t))
    res = it.call(ctx, c.getattr(o, "__call__"), [x], {"task_indices": idx})
    c.prove("independent.base_strategy_called_once_on_x", z3.BoolVal(len(calls) == 1 and calls[0][0][0] is x))
    okr = isinstance(res, VObj) and res.cls.name == "MultivariateNormal"
    c.prove("independent.returns_MultivariateNormal", z3.BoolVal(okr))
    if not okr:
        return
    mean = res.fields["loc"]
    cov = res.fields.get("_covar")
    cov = cov if cov is not None else res.fields.get("covariance_matrix")
    ok1 = len(mean.dims) == 1
    c.prove("independent.task_indices.mean", z3.And(mean.dims[0].size == n.t, mean.at_dims([i]) == mu.at([idx.at([i]), i])) if ok1 else z3.BoolVal(False))
    ok2 = cov is not None and len(cov.dims) == 2
    if not ok2:
        c.fail("independent.task_indices.covariance_shape", f"fields {sorted(res.fields)}; covariance dims {None if cov is None else [str(d.size) for d in cov.dims]}")
        return
    c.prove("independent.task_indices.covariance", z3.And(cov.dims[0].size == n.t, cov.dims[1].size == n.t,
                                                          cov.at_dims([i, j]) == z3.If(idx.at([i]) == idx.at([j]), K.at([idx.at([i]), i, j]), z3.RealVal(0))) if ok2 else z3.BoolVal(False))


@case("C14", clause="kl_sum", name="wrapper_kl", expand=lambda ix: [(w, dim, br) for w in ("independent", "lmc") for dim in (-1, -2) for br in (1, 2) if -dim <= br],
      replay=lambda *a: replay_wrappers(*a), functions=[f"{IM}.kl_divergence", f"{LMC}.kl_divergence"])
def wrapper_kl(c, w, dim, br):
    """the wrapper's KL is the sum of the latent / task GPs' KLs: _VariationalStrategy.kl_divergence() (contract: KL(q(u) || p(u)) per batch element,
    C14 kl clause) summed over the configured task / latent batch dimension"""
    it, ctx = c.it, c.ctx
    bs = [c.size(f"B{q}").t for q in range(br)]
    KL = sym_tensor("latent_kl", bs)
    qual, field = (IM, "task_dim") if w == "independent" else (LMC, "latent_dim")
    o = module_obj(c, qual, "wrapper", **{field: VNum(z3.IntVal(dim))})
    calls = []

    def hook(it_, ctx_, fi, args, kwargs):
        if not isinstance(fi, tuple) and fi.name == "kl_divergence" and fi.qualname.startswith(VS_BASE) and args and args[0] is o:
            calls.append(1)
            return KL
        return NotImplemented

    it.call_hooks.append(hook)
    res = it.call(ctx, c.getattr(o, "kl_divergence"), [], {})
    c.prove("wrapper_kl.base_kl_evaluated_once", z3.BoolVal(len(calls) == 1))
    p = br + dim
    rest = [q for q in range(br) if q != p]
    b = [ivar("b") for _ in range(br)]
    for v, s_ in zip(b, bs):
        c.assume(z3.And(v >= 0, v < s_))
    ok = isinstance(res, VTensor) and len(res.dims) == br - 1
    want = mk_sum(lambda t: KL.at([t if q == p else b[q] for q in range(br)]), bs[p])
    c.prove("wrapper_kl.is_sum_over_the_configured_dimension", z3.And(*[res.dims[a].size == bs[q] for a, q in enumerate(rest)], res.at_dims([b[q] for q in rest]) == want) if ok else z3.BoolVal(False))


def replay_wrappers(model, params, clause, info):
    from bounded import C14_closed_forms
    import json
    import os
    import re
    r = {"violations": []}
    for only in ("independent_multitask/", "lmc/"):
        r["violations"] += C14_closed_forms.run("quick", 0, only=only)["violations"]
    kf = json.load(open(os.path.join(os.path.dirname(os.path.dirname(os.path.abspath(__file__))), "known_findings.json")))
    pats = [re.compile(f["match"]) for f in kf["findings"] if f["property"] == "C14"]
    bad = [v for v in r["violations"] if not any(p.fullmatch("bounded:" + v["key"]) for p in pats)]
    return {"violates": bool(bad), "detail": "; ".join(f"{v['key']}: {v['detail']}" for v in bad[:5])[:700] or "multitask wrappers agree with the dense closed forms on the real code (known findings aside)",
            "entry": {"module": "contracts.C14_variational", "function": "replay_wrappers", "args": [model, list(params), clause, info]}}


@case("C14", clause="lmc", name="lmc_call", expand=lambda ix: [(mode,) for mode in ("all_tasks", "task_indices")], replay=lambda *a: replay_lmc(*a), functions=[f"{LMC}.__call__"], timeout=300)
def lmc_call(c, mode):
    """f_t = sum_l W[l, t] g_l with independent latent GPs g_l ~ q_l (the base strategy's batch of L distributions over the same n inputs):
    all tasks:   mean[i, t] = sum_l mu_l[i] W[l, t],  cov[(i, t), (j, t')] = sum_l K_l[i, j] W[l, t] W[l, t'] + jitter [(i, t) == (j, t')]   (interleaved layout, C11)
    one task per input (coefficients selected by the helper, contract SEL[l, i] = W[l, t_i]):
                 mean[i] = sum_l mu_l[i] SEL[l, i],   cov[i, j] = sum_l K_l[i, j] SEL[l, i] SEL[l, j] + jitter [i == j]"""
    it, ctx = c.it, c.ctx
    L, T, n = c.size("L"), c.size("T"), c.size("n")
    c.assume(z3.And(L.t >= 1, T.t >= 1, n.t >= 1))
    dist = make_mvn(c, "latent_q", [L.t], n.t)
    mu, K = dist.fields["loc"], dist.fields["_covar"]
    jit = c.real("jitter")
    c.assume(jit.t >= 0)
    o, base, calls = wrapper_setup(c, LMC, dist, latent_dim=VNum(z3.IntVal(-1)), num_tasks=VNum(T.t), num_latents=VNum(L.t), _jitter_val=jit)
    W = sym_tensor("lmc_coefficients", [L.t, T.t])
    o.fields["_parameters"].d["lmc_coefficients"] = W
    x = sym_tensor("x", [n.t, c.size("d").t])
    i, j, t, u = ivar("i"), ivar("j"), ivar("t"), ivar("u")
    c.assume(z3.And(i >= 0, i < n.t, j >= 0, j < n.t, t >= 0, t < T.t, u >= 0, u < T.t))
    if mode == "all_tasks":
        res = it.call(ctx, c.getattr(o, "__call__"), [x], {})
        c.prove("lmc.base_strategy_called_once_on_x", z3.BoolVal(len(calls) == 1 and calls[0][0][0] is x))
        okr = isinstance(res, VObj) and res.cls.name == "MultitaskMultivariateNormal"
        c.prove("lmc.all_tasks.returns_MultitaskMultivariateNormal", z3.BoolVal(okr))
        if not okr:
            return
        from contracts.dist_spec import View
        v = View(c, res)
        c.prove("lmc.all_tasks.event_shape_is_n_by_T_interleaved", z3.And(z3.BoolVal(v.interleaved is True and v.batch_rank == 0), v.n == n.t, v.t == T.t))
        c.prove("lmc.all_tasks.mean", v.mean_at([], [i, t]) == mk_sum(lambda l: mu.at([l, i]) * W.at([l, t]), L.t))
        c.prove("lmc.all_tasks.covariance", v.cov_at([], [i, t], [j, u]) == mk_sum(lambda l: (K.at([l, i, j]) * W.at([l, t])) * W.at([l, u]), L.t)
                + z3.If(z3.And(i == j, t == u), jit.t, z3.RealVal(0)))
        return
    idx = sym_tensor("task_indices", [n.t], sort="int")
    SEL = sym_tensor("selected_coefficients", [L.t, n.t])
    sel_calls = []

    def hook(it_, ctx_, fi, args, kwargs):
        if not isinstance(fi, tuple) and fi.name == "_select_lmc_coefficients":
            sel_calls.append(list(args))
            return SEL
        return NotImplemented

    it.call_hooks.append(hook)
    c.ctx.assumptions.add("callee contract (trusted; exercised by the bounded tier only): _select_lmc_coefficients(W, t)[l, i] = W[l, t_i] via linear_operator's left_interp")
    res = it.call(ctx, c.getattr(o, "__call__"), [x], {"task_indices": idx})
    c.prove("lmc.task_indices.coefficients_selected_once_from_the_parameter_by_task_indices", z3.BoolVal(len(sel_calls) == 1 and sel_calls[0][0] is W and sel_calls[0][1] is idx))
    okr = isinstance(res, VObj) and res.cls.name == "MultivariateNormal"
    c.prove("lmc.task_indices.returns_MultivariateNormal", z3.BoolVal(okr))
    if not okr:
        return
    mean = res.fields["loc"]
    cov = res.fields.get("_covar")
    cov = cov if cov is not None else res.fields.get("covariance_matrix")
    ok1 = len(mean.dims) == 1
    c.prove("lmc.task_indices.mean", z3.And(mean.dims[0].size == n.t, mean.at_dims([i]) == mk_sum(lambda l: mu.at([l, i]) * SEL.at([l, i]), L.t)) if ok1 else z3.BoolVal(False))
    ok2 = cov is not None and len(cov.dims) == 2
    c.prove("lmc.task_indices.covariance", z3.And(cov.dims[0].size == n.t, cov.at_dims([i, j]) == mk_sum(lambda l: (K.at([l, i, j]) * SEL.at([l, i])) * SEL.at([l, j]), L.t)
                                                  + z3.If(i == j, jit.t, z3.RealVal(0))) if ok2 else z3.BoolVal(False))


def replay_lmc(model, params, clause, info):
    """a real LMC model (L = 3 latent SVGPs, T = 2 tasks, jitter_val = 0.3) against the contract's formulas evaluated on the base strategy's own output"""
    import torch
    import gpytorch
    (mode,) = params
    torch.manual_seed(4)
    L, T, m, n, jit = 3, 2, 4, 5, 0.3
    Z = torch.rand(L, m, 1, dtype=torch.double)
    X = torch.rand(n, 1, dtype=torch.double)

    class G(gpytorch.models.ApproximateGP):
        def __init__(self):
            vd = gpytorch.variational.CholeskyVariationalDistribution(m, batch_shape=torch.Size([L]))
            base = gpytorch.variational.VariationalStrategy(self, Z, vd, learn_inducing_locations=False)
            super().__init__(gpytorch.variational.LMCVariationalStrategy(base, num_tasks=T, num_latents=L, latent_dim=-1, jitter_val=jit))
            self.mean_module = gpytorch.means.ConstantMean(batch_shape=torch.Size([L]))
            self.covar_module = gpytorch.kernels.RBFKernel(batch_shape=torch.Size([L]))

        def forward(self, x):
            return gpytorch.distributions.MultivariateNormal(self.mean_module(x), self.covar_module(x))

    g = G().double()
    with torch.no_grad():
        g.mean_module.constant.copy_(torch.tensor([0.3, -0.2, 0.5], dtype=torch.double))
        vd = g.variational_strategy.base_variational_strategy._variational_distribution
        vd.variational_mean.copy_(torch.randn(L, m, dtype=torch.double))
        vd.chol_variational_covar.copy_(torch.randn(L, m, m, dtype=torch.double).tril() * 0.3 + torch.eye(m, dtype=torch.double))
    g.eval()
    with torch.no_grad():
        g(X)  # initialisation pass
        lat = g.variational_strategy.base_variational_strategy(X)
        mu, K = lat.mean, lat.covariance_matrix
        W = g.variational_strategy.lmc_coefficients
        if mode == "all_tasks":
            out = g(X)
            mean = torch.einsum("li,lt->it", mu, W)
            cov = torch.einsum("lij,lt,lu->itju", K, W, W).reshape(n * T, n * T) + jit * torch.eye(n * T, dtype=torch.double)
            bad = not (isinstance(out, gpytorch.distributions.MultitaskMultivariateNormal) and torch.allclose(out.mean, mean, atol=1e-8) and torch.allclose(out.covariance_matrix, cov, atol=1e-8))
            det = f"max mean diff {(out.mean - mean).abs().max().item():.2e}, max covariance diff {(out.covariance_matrix - cov).abs().max().item():.2e}"
        else:
            ti = torch.tensor([0, 1, 1, 0, 1])
            out = g(X, task_indices=ti)
            SEL = W[:, ti]
            mean = (mu * SEL).sum(0)
            cov = (K * SEL[:, :, None] * SEL[:, None, :]).sum(0) + jit * torch.eye(n, dtype=torch.double)
            bad = not (torch.allclose(out.mean, mean, atol=1e-8) and torch.allclose(out.covariance_matrix, cov, atol=1e-8))
            det = f"max mean diff {(out.mean - mean).abs().max().item():.2e}, max covariance diff {(out.covariance_matrix - cov).abs().max().item():.2e}"
    return {"violates": bool(bad), "detail": f"LMC ({mode}), L={L}, T={T}, jitter_val={jit}: {det}",
            "entry": {"module": "contracts.C14_variational", "function": "replay_lmc", "args": [model, list(params), clause, info]}}


@case("C14", clause="closed_form_lemmas", name="closed_form_lemmas", expand=lambda ix: [()], replay=None, timeout=1500,
      functions=["gpytorch.variational.variational_strategy.VariationalStrategy.forward", f"{UV}.forward", "gpytorch.variational.variational_strategy.VariationalStrategy.prior_distribution"])
def closed_form_lemmas(c):
    """lemmas over the contracts above (Lean 4 / Mathlib, lean/Variational.lean; real matrices, L and Kzz invertible): the forms the contracts pin down ARE the
    property's closed form, so whitened and unwhitened strategies describing the same q(u) (S = L S~ L^T, m = mz + L m~, Kzz = L L^T) give the same q(f) and KL:
      whitened_cov_eq    Kxx + A^T (S~ - 1) A,  A = L^-1 Kzx                          =  Kxx - Kxz Kzz^-1 (Kzz - S) Kzz^-1 Kzx
      whitened_mean_eq   A^T m~                                                       =  Kxz Kzz^-1 (L m~)
      unwhitened_cov_eq  Kxx - Kxz Kzz^-1 Kzx + INV^T INV,  INV = R^T Kzz^-1 Kzx      =  Kxx - Kxz Kzz^-1 (Kzz - R R^T) Kzz^-1 Kzx
      kl_trace_eq / kl_quad_eq / kl_det_eq   tr(Kzz^-1 S) = tr S~,  (L m~)^T Kzz^-1 (L m~) = m~^T m~,  det S = det Kzz det S~
                         (the three terms of KL(N(mz + L m~, S) || N(mz, Kzz)) equal those of KL(N(m~, S~) || N(0, I)): the whitened kl_divergence() IS KL(q(u) || p(u)))"""
    c.ctx.assumptions.add("Lean 4.33 kernel and Mathlib are trusted for lean/Variational.lean; the lemmas are over real matrices (the jitter the code adds is part of Kzz in the lemmas; "
                          "rounding is covered by the bounded tier only)")
    for th in ("whitened_cov_eq", "whitened_mean_eq", "unwhitened_cov_eq", "kl_trace_eq", "kl_quad_eq", "kl_det_eq"):
        c.prove_lemma(f"lemma.{th}", "Variational.lean", th)


# ------------------------------------------------------------------ natural parameterisation -> (mean, Cholesky factor) -------------------------
NV = "gpytorch.variational.natural_variational_distribution"


def _lit(rows, sort="real"):
    """a concrete-shape tensor from explicit z3 terms (rows: list of lists, or a flat list for a vector)"""
    if rows and isinstance(rows[0], list):
        r, cN = len(rows), len(rows[0])

        def elem(idx):
            e = rows[r - 1][cN - 1]
            for a in range(r - 1, -1, -1):
                for b in range(cN - 1, -1, -1):
                    e = z3.If(z3.And(idx[0] == a, idx[1] == b), rows[a][b], e)
            return e
        return VTensor([Dim([z3.IntVal(r)]), Dim([z3.IntVal(cN)])], elem, sort)
    r = len(rows)

    def elem1(idx):
        e = rows[r - 1]
        for a in range(r - 1, -1, -1):
            e = z3.If(idx[0] == a, rows[a], e)
        return e
    return VTensor([Dim([z3.IntVal(r)])], elem1, sort)


TNV = "gpytorch.variational.tril_natural_variational_distribution"


@case("C14", clause="natural_parameters", name="natural_to_mean_and_factor", expand=lambda ix: [(m,) for m in (1, 2)] + [(m, True) for m in (1, 2)], replay=lambda *a: replay_natural(*a),
      functions=[f"{NV}.NaturalVariationalDistribution.forward", f"{NV}._NaturalToMuVarSqrt.forward", f"{NV}._NaturalToMuVarSqrt._forward", f"{NV}._triangular_inverse",
                 f"{TNV}.TrilNaturalVariationalDistribution.forward", f"{TNV}._TrilNaturalToMuVarSqrt.forward", f"{TNV}._TrilNaturalToMuVarSqrt._forward"], timeout=600)
def natural_to_mean_and_factor(c, m, tril=False):
    """q(u) of the natural parameterisation: with theta_1 = natural_vec, Theta_2 = natural_mat (symmetric, -2 Theta_2 positive definite), the returned
    MultivariateNormal has (-2 Theta_2) Sigma = I  and  (-2 Theta_2) mu = theta_1,  i.e. covariance (-2 Theta_2)^-1 and mean Sigma theta_1.
    tril=True: TrilNaturalVariationalDistribution, whose matrix parameter T (natural_tril_mat; only its lower triangle is read) stands for
    Theta_2 = -1/2 tril(T)^T tril(T): then (tril(T)^T tril(T)) Sigma = I and (tril(T)^T tril(T)) mu = theta_1.
    Callee contracts (dependency, assumed): psd_safe_cholesky(A) returns the lower-triangular factor with positive diagonal and F F^T = A;
    torch.linalg.solve_triangular(A, B, upper=False) returns X with tril(A) X = B (the upper triangle of A is not read).  Event size m in {1, 2} (explicit entries; nonlinear real arithmetic)."""
    it, ctx = c.it, c.ctx
    th = [c.real(f"theta1_{a}").t for a in range(m)]
    Th = [[None] * m for _ in range(m)]
    for a in range(m):
        for b in range(a, m):
            Th[a][b] = Th[b][a] = c.real(f"Theta2_{a}{b}").t
    if tril:
        Tm = [[c.real(f"T_{a}{b}").t for b in range(m)] for a in range(m)]  # arbitrary square parameter; tril(T) is what the code may read
        lowT = [[Tm[a][b] if b <= a else z3.RealVal(0) for b in range(m)] for a in range(m)]
        for a in range(m):
            c.assume(Tm[a][a] != 0)
        Th = [[z3.RealVal("-1/2") * sum(lowT[q][a] * lowT[q][b] for q in range(m)) for b in range(m)] for a in range(m)]
    nat_vec, nat_mat = _lit(th), _lit(Tm if tril else Th)
    count = {"chol": 0, "solve": 0}

    def ent(t, a, b):
        return t.at([z3.IntVal(a), z3.IntVal(b)])

    def chol(it_, ctx_, a, k):
        A = a[0]
        count["chol"] += 1
        tag = count["chol"]
        F = [[(z3.Real(f"chol{tag}_{r}{s_}") if s_ <= r else z3.RealVal(0)) for s_ in range(m)] for r in range(m)]
        upper = k.get("upper", FALSE)
        if upper is TRUE:
            from engine.symexec import Undecided
            raise Undecided("psd_safe_cholesky(upper=True) is not modelled")
        for r in range(m):
            ctx_.assume(F[r][r] > 0, "callee contract psd_safe_cholesky: positive diagonal")
            for s_ in range(r + 1):
                ctx_.assume(sum(F[r][q] * F[s_][q] for q in range(m)) == ent(A, r, s_), "callee contract psd_safe_cholesky: F F^T = A")
        return _lit(F)

    def solve_tri(it_, ctx_, a, k):
        A, Bm = a[0], a[1]
        count["solve"] += 1
        tag = count["solve"]
        if k.get("upper", FALSE) is TRUE:
            from engine.symexec import Undecided
            raise Undecided("solve_triangular(upper=True) is not modelled")
        X = [[z3.Real(f"tsolve{tag}_{r}{s_}") for s_ in range(m)] for r in range(m)]
        for r in range(m):
            for s_ in range(m):
                ctx_.assume(sum(ent(A, r, q) * X[q][s_] for q in range(r + 1)) == ent(Bm, r, s_), "callee contract solve_triangular: tril(A) X = B")
        return _lit(X)

    it.optable["linear_operator.utils.cholesky.psd_safe_cholesky"] = chol
    it.optable["torch.linalg.solve_triangular"] = solve_tri
    from engine.values import VBuiltin
    saved = []

    def function_apply(it_, ctx_, vcls, name):
        """torch.autograd.Function.apply(*args) returns what the class's forward(ctx, *args) returns (value semantics; the backward pass is C19's subject)"""
        if name != "apply" or "torch.autograd.Function" not in " ".join(str(b) for b in vcls.info.external_bases()):
            return None
        fctx = Stub("autograd ctx", methods={"save_for_backward": lambda *a: (saved.append(a), NONE)[1]})
        return VBuiltin("Function.apply", lambda it2, ctx2, a, k: it2.call(ctx2, it2.class_getattr(ctx2, vcls, "forward"), [fctx] + list(a), k))

    it.attr_hooks.append(function_apply)
    o = module_obj(c, f"{TNV}.TrilNaturalVariationalDistribution" if tril else f"{NV}.NaturalVariationalDistribution", "natural_vdist")
    for nm, t in (("natural_vec", nat_vec), ("natural_tril_mat" if tril else "natural_mat", nat_mat)):
        t.meta["is_parameter"] = True
        o.fields["_parameters"].d[nm] = t
    res = it.call(ctx, c.getattr(o, "forward"), [], {})
    ok = isinstance(res, VObj) and res.cls.name == "MultivariateNormal"
    c.prove("natural.returns_MultivariateNormal", z3.BoolVal(ok))
    if not ok:
        return
    mu, cov = res.fields["loc"], res.fields["_covar"]
    c.prove("natural.two_factorisations_one_triangular_solve", z3.BoolVal(count == ({"chol": 0, "solve": 1} if tril else {"chol": 2, "solve": 1})))
    Sig = [[cov.at_dims([z3.IntVal(a), z3.IntVal(b)]) for b in range(m)] for a in range(m)]
    for a in range(m):
        for b in range(m):
            c.prove(f"natural.covariance_is_the_inverse_of_minus_two_Theta2[{a}{b}]",
                    sum(-2 * Th[a][q] * Sig[q][b] for q in range(m)) == (1 if a == b else 0))
        c.prove(f"natural.mean_solves_minus_two_Theta2_mu_eq_theta1[{a}]", sum(-2 * Th[a][q] * mu.at([z3.IntVal(q)]) for q in range(m)) == th[a])
    for a in range(m):
        for b in range(a + 1, m):
            c.prove(f"natural.covariance_is_symmetric[{a}{b}]", Sig[a][b] == Sig[b][a])


def replay_natural(model, params, clause, info):
    """the real NaturalVariationalDistribution.forward on a random positive-definite natural matrix of the case's size (and 5): covariance and mean against
    the dense inverse"""
    import torch
    from gpytorch.variational import NaturalVariationalDistribution
    torch.manual_seed(0)
    bad = []
    tril = len(params) > 1 and bool(params[1])
    from gpytorch.variational import TrilNaturalVariationalDistribution
    for m in sorted({int(params[0]), 5}):
        A = torch.randn(m, m, dtype=torch.float64)
        P = A @ A.T + m * torch.eye(m, dtype=torch.float64)
        th = torch.randn(m, dtype=torch.float64)
        if tril:
            T = torch.randn(m, m, dtype=torch.float64) + 2 * torch.eye(m, dtype=torch.float64)  # upper triangle deliberately non-zero: it must not be read
            P = T.tril().T @ T.tril()
            d = TrilNaturalVariationalDistribution(m).double()
            d.natural_vec.data.copy_(th)
            d.natural_tril_mat.data.copy_(T)
        else:
            d = NaturalVariationalDistribution(m).double()
            d.natural_vec.data.copy_(th)
            d.natural_mat.data.copy_(-0.5 * P)
        q = d()
        e1 = (q.covariance_matrix - torch.linalg.inv(P)).abs().max().item()
        e2 = (q.mean - torch.linalg.solve(P, th)).abs().max().item()
        if max(e1, e2) > 1e-8:
            bad.append(f"m={m}: covariance off by {e1:.3g}, mean off by {e2:.3g}")
    return {"violates": bool(bad), "detail": "; ".join(bad) or "real NaturalVariationalDistribution.forward returns N((-2 Theta2)^-1 theta1, (-2 Theta2)^-1)",
            "entry": {"module": "contracts.C14_variational", "function": "replay_natural", "args": [model, list(params), clause, info]}}
