"""C18 -- persistence round trips: the state-footprint clauses a contract can state (proof tier).

state_dict / pickle / deepcopy are torch's and Python's mechanisms (assumed to carry exactly the registered parameters and buffers, resp. the
instance dictionaries).  What gpytorch must do for a round trip to reproduce the model is to KEEP its prediction-relevant state inside those
mechanisms and to drop derived caches when state is loaded.  Proved here on the real functions:
  * constraint bounds live in buffers (Interval.__init__; C17's constructor contract), so the state_dict carries them;
  * priors: _bufferize_attributes registers the prior's parameters as buffers -- for a TransformedDistribution the buffer IS the tensor the base
    distribution reads (aliasing: loading into the buffer in place changes the distribution), otherwise the attribute is replaced by a buffer of the
    same values; _load_transformed_to_base_dist points the base distribution at the loaded buffers;
  * variational strategies keep inducing points (parameter or buffer, as requested) and their initialisation flags (variational_params_initialized,
    updated_strategy) in buffers; the Cholesky / mean-field distributions register their parameters;
  * loading a state_dict drops the caches of every gpytorch module visited (Module._load_from_state_dict; shared with C03);
  * a deep copy of a prediction strategy is None (copies never carry prediction caches).
Whether whole models round-trip (and which state escapes these mechanisms) is measured in the bounded tier.
"""
from __future__ import annotations

import z3

from engine.dom_elem import ivar, sym_tensor
from engine.runner import case
from engine.values import FALSE, NONE, TRUE, VBool, VDict, VList, VNum, VObj, VStr, VTuple
from contracts import C03_caches as c03
from contracts import C17_constraints as c17
from contracts.C15_objectives import module_obj
from contracts.stubs import Stub

PU = "gpytorch.priors.utils"


def replay_bounds(model, params, clause, info):
    import torch
    import gpytorch
    bad = []
    for cons in (gpytorch.constraints.Interval(0.1, 2.5), gpytorch.constraints.GreaterThan(0.3), gpytorch.constraints.LessThan(4.0), gpytorch.constraints.Positive()):
        sd = cons.state_dict()
        if not ("lower_bound" in sd and "upper_bound" in sd):
            bad.append(f"{type(cons).__name__}.state_dict() has keys {sorted(sd)}")
    k = gpytorch.kernels.RBFKernel(lengthscale_constraint=gpytorch.constraints.Interval(0.1, 2.5))
    k2 = gpytorch.kernels.RBFKernel(lengthscale_constraint=gpytorch.constraints.Interval(0.5, 9.0))
    k2.load_state_dict(k.state_dict())
    if float(k2.raw_lengthscale_constraint.upper_bound) != 2.5:
        bad.append(f"after load_state_dict the receiver's upper bound is {float(k2.raw_lengthscale_constraint.upper_bound)} (saved: 2.5)")
    return {"violates": bool(bad), "detail": "; ".join(bad) or "constraint bounds travel with the state_dict",
            "entry": {"module": "contracts.C18_persistence", "function": "replay_bounds", "args": [model, list(params), clause, info]}}


def replay_strategy_copy(model, params, clause, info):
    import copy
    import torch
    import gpytorch

    class M(gpytorch.models.ExactGP):
        def __init__(self, x, y):
            super().__init__(x, y, gpytorch.likelihoods.GaussianLikelihood())
            self.mean_module, self.covar_module = gpytorch.means.ConstantMean(), gpytorch.kernels.RBFKernel()

        def forward(self, x):
            return gpytorch.distributions.MultivariateNormal(self.mean_module(x), self.covar_module(x))

    x = torch.linspace(0, 1, 6).unsqueeze(-1)
    m = M(x, torch.sin(4 * x).squeeze(-1)).eval()
    m(torch.rand(3, 1))
    cp = copy.deepcopy(m)
    bad = cp.prediction_strategy is not None
    return {"violates": bool(bad), "detail": "a deep copy of a model that has predicted carries a prediction strategy" if bad else "deep copies carry no prediction strategy",
            "entry": {"module": "contracts.C18_persistence", "function": "replay_strategy_copy", "args": [model, list(params), clause, info]}}


@case("C18", clause="constraint_bounds_are_buffers", replay=lambda *a: replay_bounds(*a), functions=["gpytorch.constraints.constraints.Interval.__init__"])
def constraint_bounds(c):
    return c17.ctor_interval(c)


class PriorLike(Stub):
    """a module-like prior object: attributes, buffers (register_buffer) and deletion, enough for priors/utils"""

    def __init__(self, name, attrs, transformed):
        super().__init__(name, attrs=attrs, isa=("TransformedDistribution", "Distribution", "Module") if transformed else ("Distribution", "Module"))
        self.buffers = {}
        self.deleted = []
        self.methods["register_buffer"] = lambda n, v, **k: (self.buffers.__setitem__(n.s, v), self.attrs.__setitem__(n.s, v), NONE)[2]

    def py_delattr(self, it, ctx, name):
        self.deleted.append(name)
        self.attrs.pop(name, None)


@case("C18", clause="prior_parameters_are_buffers", expand=lambda ix: [(tr,) for tr in (True, False)], replay=lambda *a: replay_c18(*a),
      functions=[f"{PU}._bufferize_attributes", f"{PU}._load_transformed_to_base_dist"])
def prior_buffers(c, transformed):
    it, ctx = c.it, c.ctx
    loc, scale = sym_tensor("loc", []), sym_tensor("scale", [])
    p = PriorLike("prior", {"loc": loc, "scale": scale}, transformed)
    it.optable["builtins.delattr"] = lambda it_, ctx_, a, k: (a[0].py_delattr(it_, ctx_, a[1].s) if isinstance(a[0], PriorLike) else None, NONE)[1]
    it.call(ctx, c.func(f"{PU}._bufferize_attributes"), [p, VTuple([VStr("loc"), VStr("scale")])], {})
    if transformed:
        c.prove("bufferize.transformed.buffers_alias_the_distribution_tensors", z3.BoolVal(p.buffers.get("_transformed_loc") is loc and p.buffers.get("_transformed_scale") is scale))
        c.prove("bufferize.transformed.attributes_kept", z3.BoolVal(p.attrs.get("loc") is loc and p.attrs.get("scale") is scale and not p.deleted))
        # loading: the base distribution is pointed at the (loaded) buffers
        new_loc, new_scale = sym_tensor("loaded_loc", []), sym_tensor("loaded_scale", [])
        base = Stub("base_dist", attrs={"loc": loc, "scale": scale})
        q = Stub("prior_after_load", attrs={"_transformed_loc": new_loc, "_transformed_scale": new_scale, "base_dist": base})
        it.optable["builtins.dir"] = lambda it_, ctx_, a, k: VList([VStr(n) for n in sorted(a[0].attrs)])
        it.call(ctx, c.func(f"{PU}._load_transformed_to_base_dist"), [q], {})
        c.prove("load_transformed.base_distribution_reads_the_loaded_buffers", z3.BoolVal(base.attrs.get("loc") is new_loc and base.attrs.get("scale") is new_scale))
    else:
        bl, bs = p.buffers.get("loc"), p.buffers.get("scale")
        ok = bl is not None and bs is not None
        c.prove("bufferize.plain.parameters_registered_as_buffers", z3.BoolVal(ok and sorted(p.deleted) == ["loc", "scale"]))
        if ok:
            c.prove("bufferize.plain.same_values", z3.And(bl.at([]) == loc.at([]), bs.at([]) == scale.at([])))


@case("C18", clause="variational_state_is_registered", expand=lambda ix: [(learn, cls) for learn in (True, False) for cls in ("_VariationalStrategy", "VariationalStrategy")],
      replay=lambda *a: replay_c18(*a),
      functions=["gpytorch.variational._variational_strategy._VariationalStrategy.__init__", "gpytorch.variational.variational_strategy.VariationalStrategy.__init__"])
def variational_state(c, learn, clsname):
    it, ctx = c.it, c.ctx
    m, d = c.size("m"), c.size("d")
    Z = sym_tensor("Z", [m.t, d.t])
    vd = Stub("variational_distribution", isa=("_VariationalDistribution", "Module"))
    model = Stub("model", isa=("ApproximateGP",))
    qual = {"_VariationalStrategy": "gpytorch.variational._variational_strategy._VariationalStrategy", "VariationalStrategy": "gpytorch.variational.variational_strategy.VariationalStrategy"}[clsname]
    it.optable["torch.nn.Parameter"] = lambda it_, ctx_, a, k: _as_param(a[0])
    o = it.call(ctx, c.cls(qual), [model, Z, vd], {"learn_inducing_locations": VBool(learn)})
    params, bufs = o.fields["_parameters"].d, o.fields["_buffers"].d
    where = params if learn else bufs
    other = bufs if learn else params
    ip = where.get("inducing_points")
    i, k = ivar("i"), ivar("k")
    c.assume(z3.And(i >= 0, i < m.t, k >= 0, k < d.t))
    c.prove("strategy.inducing_points_registered_as_requested", z3.And(z3.BoolVal(ip is not None and "inducing_points" not in other and ip is not Z), ip.at([i, k]) == Z.at([i, k])) if ip is not None else z3.BoolVal(False))
    flag = bufs.get("variational_params_initialized")
    c.prove("strategy.initialisation_flag_is_a_buffer_starting_at_0", z3.And(z3.BoolVal(flag is not None), flag.at([]) == 0) if flag is not None else z3.BoolVal(False))
    if clsname == "VariationalStrategy":
        us = bufs.get("updated_strategy")
        c.prove("strategy.updated_strategy_is_a_buffer", z3.BoolVal(us is not None))


def _as_param(t):
    t = t.frozen()
    t.meta = dict(t.meta)
    t.meta["is_parameter"] = True
    return t


@case("C18", clause="load_drops_caches", expand=lambda ix: [(kind,) for kind in ("exact_gp", "inducing_point_kernel", "grid_kernel", "variational_strategy")], replay=lambda *a: replay_c18(*a),
      functions=["gpytorch.module.Module._load_from_state_dict"])
def load_drops_caches(c, kind):
    return c03.load_state_dict(c, kind)


@case("C18", clause="copies_carry_no_prediction_caches", replay=lambda *a: replay_strategy_copy(*a), functions=["gpytorch.models.exact_prediction_strategies.DefaultPredictionStrategy.__deepcopy__"])
def strategy_deepcopy(c):
    it, ctx = c.it, c.ctx
    ci = it.index.get_class("gpytorch.models.exact_prediction_strategies.DefaultPredictionStrategy")
    o = VObj(ci, label="DefaultPredictionStrategy")
    res = it.call(ctx, c.getattr(o, "__deepcopy__"), [VDict({})], {})
    c.prove("deepcopy.prediction_strategy_copies_to_None", z3.BoolVal(res is NONE))


def replay_c18(model, params, clause, info):
    from bounded import C18_roundtrips as Bd
    import json
    import os
    import re
    r = Bd.run("quick", 0)
    kf = json.load(open(os.path.join(os.path.dirname(os.path.dirname(os.path.abspath(__file__))), "known_findings.json")))
    pats = [re.compile(f["match"]) for f in kf["findings"] if f["property"] == "C18"]
    bad = [v for v in r["violations"] if not any(p.fullmatch("bounded:" + v["key"]) for p in pats)]
    return {"violates": bool(bad), "detail": "; ".join(f"{v['key']}: {v['detail']}" for v in bad[:5])[:700] or "round trips reproduce the models on the real code (known findings aside)",
            "entry": {"module": "contracts.C18_persistence", "function": "replay_c18", "args": [model, list(params), clause, info]}}


@case("C18", clause="constraint_value_depends_on_registered_state_only", name="constraint_reads", expand=lambda ix: [(k,) for k in c17.KINDS], replay=lambda *a: replay_constraint_reads(*a),
      functions=["gpytorch.constraints.constraints.Interval.transform", "gpytorch.constraints.constraints.Interval.inverse_transform", "gpytorch.constraints.constraints.Interval.check"])
def constraint_reads(c, kind):
    """a restored model computes its hyperparameters as constraint.transform(raw): for that to be reproduced by a state_dict round trip, transform / inverse_transform /
    check may read, of the constraint object, only what the state_dict carries (registered buffers / parameters / sub-modules) and non-tensor constructor constants
    (the transform callables, flags) -- a plain attribute holding tensor state (e.g. a cached width) is invisible to load_state_dict"""
    from engine.dom_elem import VTensor
    it, ctx = c.it, c.ctx
    cons, lo, hi = c17.make_constraint(c, kind)
    d = c.size("d")
    x = sym_tensor("raw", [d.t])
    v = c17.in_bounds_value(c, "val", d.t, lo, hi)
    n0 = len(ctx.reads)
    k = ivar("k")
    c.assume(z3.And(k >= 0, k < d.t))
    t = it.call(ctx, c.getattr(cons, "transform"), [x], {})
    t.at_dims([k])
    inv = it.call(ctx, c.getattr(cons, "inverse_transform"), [v], {})
    inv.at_dims([k])
    names = sorted({loc[2] for loc in ctx.reads[n0:] if loc[0] == "field" and loc[1] == cons.label})
    registered = set(cons.fields["_buffers"].d) | set(cons.fields["_parameters"].d) | set(cons.fields["_modules"].d)
    plain_tensor_state = []
    for nm in names:
        if nm in registered or nm in ("_buffers", "_parameters", "_modules"):
            continue
        val = cons.fields.get(nm)
        if isinstance(val, VTensor) or (isinstance(val, VNum) and not z3.is_rational_value(z3.simplify(val.t)) and not z3.is_int_value(z3.simplify(val.t))):
            plain_tensor_state.append(nm)
    c.cover("reads_recorded") if names else None
    c.prove("constraint_reads.no_unregistered_tensor_state_is_read", z3.BoolVal(not plain_tensor_state), unregistered_tensor_attributes_read=plain_tensor_state, fields_read=names)
    if "_buffers" in names or (registered & set(names)):
        c.cover("registered_state_read")


def replay_constraint_reads(model, params, clause, info):
    """real constraints: load the state of a constraint with bounds (0.2, 3.0) into one constructed with other bounds; transform / inverse_transform must then be those
    of the LOADED bounds"""
    import torch
    import gpytorch
    (kind,) = params
    C = gpytorch.constraints
    mk = {"Interval": (lambda: C.Interval(0.2, 3.0), lambda: C.Interval(0.0, 1.0)), "GreaterThan": (lambda: C.GreaterThan(0.2), lambda: C.GreaterThan(5.0)),
          "LessThan": (lambda: C.LessThan(3.0), lambda: C.LessThan(-1.0)), "Positive": (lambda: C.Positive(), lambda: C.Positive())}[kind]
    src, dst = mk[0]().double(), mk[1]().double()
    dst.load_state_dict(src.state_dict())
    raw = torch.linspace(-2, 2, 7, dtype=torch.double)
    a, b = src.transform(raw), dst.transform(raw)
    back = dst.inverse_transform(a)
    bad = not (torch.allclose(a, b, atol=1e-12) and torch.allclose(back, raw, atol=1e-8))
    return {"violates": bool(bad), "detail": f"{kind}: transform after load_state_dict differs from the saved constraint's by {(a - b).abs().max().item():.3e}; inverse round trip error {(back - raw).abs().max().item():.3e}",
            "entry": {"module": "contracts.C18_persistence", "function": "replay_constraint_reads", "args": [model, list(params), clause, info]}}
