"""C09 -- structure-exploiting kernels equal their dense meaning; cubic interpolation weights (proof tier).

Functions under contract (real AST): utils.interpolation.Interpolation._cubic_interpolation_kernel, kernels.multitask_kernel.MultitaskKernel.forward,
kernels.index_kernel.IndexKernel.{_eval_covar_matrix, forward}, kernels.lcm_kernel.LCMKernel.forward.

  * Keys' cubic convolution kernel: u(s) as documented on |s| < 1 and 1 <= |s| <= 2; for a point at fractional offset s in [0, 1) between grid nodes
    the four weights u(s+1), u(s), u(1-s), u(2-s) sum to one, are (0, 1, 0, 0) at a node (s = 0), and reproduce linear and quadratic functions:
    sum_k w_k p_k = s, sum_k w_k p_k^2 = s^2 for node positions p = (-1, 0, 1, 2)  -- polynomial identities, for ALL s.
  * MultitaskKernel: K[(i, a), (j, b)] = K_x[i, j] * K_t[a, b] in the interleaved layout (row i*T + a); diag = the diagonal of that.
  * IndexKernel: B B^T + diag(v) looked up at the task indices: K[i, j] = (B B^T + diag v)[i1[i], i2[j]].
  * LCMKernel: the sum of its component multitask kernels.
  * Interpolation.interpolate, region contract (mechanical split re-done on every run, see interpolate_regions): the combination of the one-dimensional
    node indices / weights across dimensions = lexicographic position in a grid with DIFFERENT sizes per dimension, product of the weights (d <= 3).
The Toeplitz / Kronecker grid kernels, the inducing-point (Nystrom / SGPR) algebra and the kernel-specific prediction strategies are compared with
their dense meaning in the bounded tier only.
"""
from __future__ import annotations

import z3

from engine import dom_elem as E
from engine.dom_elem import Dim, VTensor, ivar, mk_sum, sym_tensor
from engine.runner import case
from engine.values import FALSE, NONE, TRUE, VBool, VDict, VList, VNum, VObj, VStr, VTuple
from contracts.C15_objectives import module_obj
from contracts.stubs import Stub

IP = "gpytorch.utils.interpolation.Interpolation"
KM = "gpytorch.kernels"


@case("C09", clause="cubic_interpolation_weights", replay=lambda *a: replay_c09(*a), functions=[f"{IP}._cubic_interpolation_kernel"])
def cubic_weights(c):
    it, ctx = c.it, c.ctx
    s = c.real("s")
    c.assume(z3.And(s.t >= 0, s.t < 1))
    nodes = [-1, 0, 1, 2]
    dist = [s.t - p for p in nodes]  # signed scaled distances of the point to its four neighbouring nodes

    def elem(idx):
        r = dist[-1]
        for q in range(2, -1, -1):
            r = z3.If(idx[1] == q, dist[q], r)
        return r

    D = VTensor([Dim([1]), Dim([4])], elem, "real")
    ci = it.index.get_class(IP)
    o = VObj(ci, label="Interpolation")
    res = it.call(ctx, c.getattr(o, "_cubic_interpolation_kernel"), [D], {})
    w = [res.at([z3.IntVal(0), z3.IntVal(q)]) for q in range(4)]
    a = [z3.If(d >= 0, d, -d) for d in dist]
    at_node = ctx.branch(s.t == 0)  # two paths: on a grid node / strictly between nodes (keeps each VC's case analysis small)
    doc = [z3.If(x < 1, (1.5 * x - 2.5) * x * x + 1, ((-0.5 * x + 2.5) * x - 4) * x + 2) for x in a]
    for q in range(4):
        c.prove(f"cubic.documented_piecewise_cubic[{q}]", w[q] == doc[q])
        c.assume(w[q] == doc[q])  # proved just above: the identities below are then statements about the documented cubic pieces
    c.prove("cubic.weights_sum_to_one", w[0] + w[1] + w[2] + w[3] == 1)
    c.prove("cubic.exact_at_grid_nodes", z3.Implies(s.t == 0, z3.And(w[0] == 0, w[1] == 1, w[2] == 0, w[3] == 0)))
    c.prove("cubic.reproduces_linear_functions", sum(w[q] * nodes[q] for q in range(4)) == s.t)
    c.prove("cubic.reproduces_quadratic_functions", sum(w[q] * nodes[q] * nodes[q] for q in range(4)) == s.t * s.t)


@case("C09", clause="multitask_kronecker", expand=lambda ix: [(br, diag) for br in (0, 1) for diag in (False, True)], replay=lambda *a: replay_c09(*a),
      functions=[f"{KM}.multitask_kernel.MultitaskKernel.forward"])
def multitask_kronecker(c, br, diag):
    it, ctx = c.it, c.ctx
    n1, n2, T, B, d = c.size("n1"), c.size("n2"), c.size("T"), c.size("B"), c.size("d")
    c.assume(T.t >= 1)
    bs = [B.t] if br else []
    n2t = n1.t if diag else n2.t
    Kx = sym_tensor("Kx", bs + [n1.t, n2t], is_linop=True)
    Kt = sym_tensor("Kt", [T.t, T.t], is_linop=True)
    data = Stub("data_covar_module", methods={"forward": lambda *a, **k: Kx}, isa=("Kernel",))
    task = Stub("task_covar_module", attrs={"covar_matrix": Kt}, isa=("Kernel",))
    o = module_obj(c, f"{KM}.multitask_kernel.MultitaskKernel", "multitask_kernel", num_tasks=T)
    o.fields["_modules"].d["data_covar_module"] = data
    o.fields["_modules"].d["task_covar_module"] = task
    x1 = sym_tensor("x1", bs + [n1.t, d.t])
    x2 = x1 if diag else sym_tensor("x2", bs + [n2.t, d.t])
    res = it.call(ctx, c.getattr(o, "forward"), [x1, x2], {"diag": VBool(diag)})
    b = [ivar("b") for _ in bs]
    i, j, a, e = ivar("i"), ivar("j"), ivar("a"), ivar("e")
    for v, ext in zip(b + [i, j, a, e], bs + [n1.t, n2t, T.t, T.t]):
        c.assume(z3.And(v >= 0, v < ext))
    if diag:
        ok = hasattr(res, "dims") and len(res.dims) == br + 1
        c.prove("multitask.diag_shape", z3.And(z3.BoolVal(ok), res.dims[-1].size == n1.t * T.t) if ok else z3.BoolVal(False))
        if ok:
            c.prove("multitask.diag_value", res.at_dims(b + [i * T.t + a]) == Kx.at(b + [i, i]) * Kt.at([a, a]))
        return
    ok = hasattr(res, "dims") and len(res.dims) == br + 2
    c.prove("multitask.shape", z3.And(z3.BoolVal(ok), res.dims[-2].size == n1.t * T.t, res.dims[-1].size == n2.t * T.t) if ok else z3.BoolVal(False))
    if ok:
        c.prove("multitask.interleaved_kronecker_value", res.at_dims(b + [i * T.t + a, j * T.t + e]) == Kx.at(b + [i, j]) * Kt.at([a, e]))


@case("C09", clause="index_kernel", expand=lambda ix: [(br,) for br in (0, 1)], replay=lambda *a: replay_c09(*a),
      functions=[f"{KM}.index_kernel.IndexKernel._eval_covar_matrix", f"{KM}.index_kernel.IndexKernel.forward"])
def index_kernel(c, br):
    it, ctx = c.it, c.ctx
    n1, n2, T, R, B = c.size("n1"), c.size("n2"), c.size("T"), c.size("R"), c.size("B")
    c.assume(z3.And(T.t >= 1, R.t >= 1))
    bs = [B.t] if br else []
    Bf = sym_tensor("covar_factor", bs + [T.t, R.t])
    v = sym_tensor("var", bs + [T.t])
    o = module_obj(c, f"{KM}.index_kernel.IndexKernel", "index_kernel", _batch_shape=VTuple([VNum(e) for e in bs], is_size=True))
    props = {"covar_factor": Bf, "var": v}
    it.attr_hooks.append(lambda it_, ctx_, obj, name: props.get(name) if obj is o else None)
    M = it.call(ctx, c.getattr(o, "_eval_covar_matrix"), [], {})
    b = [ivar("b") for _ in bs]
    p, q = ivar("p"), ivar("q")
    for w, ext in zip(b + [p, q], bs + [T.t, T.t]):
        c.assume(z3.And(w >= 0, w < ext))
    want = lambda r_, s_: mk_sum(lambda k: Bf.at(b + [r_, k]) * Bf.at(b + [s_, k]), R.t) + z3.If(r_ == s_, v.at(b + [r_]), z3.RealVal(0))  # noqa: E731
    c.prove("index.task_covariance_is_BBt_plus_diag_v", z3.And(z3.BoolVal(len(M.dims) == br + 2), M.at_dims(b + [p, q]) == want(p, q)) if len(M.dims) == br + 2 else z3.BoolVal(False))
    i1 = sym_tensor("i1", bs + [n1.t, z3.IntVal(1)], sort="int")
    i2 = sym_tensor("i2", bs + [n2.t, z3.IntVal(1)], sort="int")
    res = it.call(ctx, c.getattr(o, "forward"), [i1, i2], {})
    i, j = ivar("i"), ivar("j")
    c.assume(z3.And(i >= 0, i < n1.t, j >= 0, j < n2.t))
    r_, s_ = i1.at(b + [i, z3.IntVal(0)]), i2.at(b + [j, z3.IntVal(0)])
    c.assume(z3.And(r_ >= 0, r_ < T.t, s_ >= 0, s_ < T.t))
    ok = hasattr(res, "dims") and len(res.dims) == br + 2
    c.prove("index.shape", z3.And(z3.BoolVal(ok), res.dims[-2].size == n1.t, res.dims[-1].size == n2.t) if ok else z3.BoolVal(False))
    if ok:
        c.prove("index.value_is_task_covariance_at_the_indices", res.at_dims(b + [i, j]) == want(r_, s_))


@case("C09", clause="lcm_sum", expand=lambda ix: [(k,) for k in (1, 2, 3)], replay=lambda *a: replay_c09(*a), functions=[f"{KM}.lcm_kernel.LCMKernel.forward"])
def lcm_sum(c, k):
    it, ctx = c.it, c.ctx
    N, M_ = c.size("N"), c.size("M")
    parts = [sym_tensor(f"component{q}", [N.t, M_.t], is_linop=True) for q in range(k)]
    seen = []
    mods = []
    for q in range(k):
        mods.append(Stub(f"multitask_component{q}", methods={"forward": (lambda q_: lambda *a, **kw: (seen.append((q_, list(a))), parts[q_].frozen().copy(is_linop=True))[1])(q)}, isa=("Kernel",)))
    o = module_obj(c, f"{KM}.lcm_kernel.LCMKernel", "lcm")
    o.fields["_modules"].d["covar_module_list"] = VList(mods)
    x1, x2 = sym_tensor("x1", [c.size("n1").t, c.size("d").t]), sym_tensor("x2", [c.size("n2").t, c.size("d").t])
    res = it.call(ctx, c.getattr(o, "forward"), [x1, x2], {})
    i, j = ivar("i"), ivar("j")
    c.assume(z3.And(i >= 0, i < N.t, j >= 0, j < M_.t))
    c.prove("lcm.is_the_sum_of_the_components", res.at_dims([i, j]) == sum((p.at([i, j]) for p in parts), z3.RealVal(0)))
    c.prove("lcm.every_component_evaluated_once_on_the_inputs", z3.BoolVal(sorted(s[0] for s in seen) == list(range(k)) and all(s[1][0] is x1 and s[1][1] is x2 for s in seen)))


def replay_c09(model, params, clause, info):
    from bounded import C09_structure as Bd
    import json
    import os
    import re
    r = Bd.run("quick", 0)
    kf = json.load(open(os.path.join(os.path.dirname(os.path.dirname(os.path.abspath(__file__))), "known_findings.json")))
    pats = [re.compile(f["match"]) for f in kf["findings"] if f["property"] == "C09"]
    bad = [v for v in r["violations"] if not any(p.fullmatch("bounded:" + v["key"]) for p in pats)]
    return {"violates": bool(bad), "detail": "; ".join(f"{v['key']}: {v['detail']}" for v in bad[:5])[:700] or "structured kernels / interpolation agree with their dense meaning on the real code (known findings aside)",
            "entry": {"module": "contracts.C09_structured", "function": "replay_c09", "args": [model, list(params), clause, info]}}


@case("C09", clause="grid_update_drops_cache", name="grid_update", expand=lambda ix: [(interp,) for interp in (True, False)], replay=lambda *a: replay_c09(*a),
      functions=["gpytorch.kernels.grid_kernel.GridKernel.update_grid", "gpytorch.kernels.grid_kernel.GridKernel._clear_cache"])
def grid_update(c, interpolation_mode):
    """'equals the dense formula it abbreviates' includes after re-gridding: update_grid must drop the cached K_UU of the old grid in interpolation mode too
    (KISS-GP re-grids in evaluation mode), and install the new grid (the C03 contract, shared)"""
    from contracts import C03_caches as c03
    return c03.grid_update(c, interpolation_mode)


# ------------------------------------------------------------------ inducing-point (SGPR) kernel ------------------------------------
IPK = "gpytorch.kernels.inducing_point_kernel.InducingPointKernel"
IPL = "gpytorch.mlls.inducing_point_kernel_added_loss_term.InducingPointKernelAddedLossTerm"


@case("C09", clause="nystrom", name="inducing_point_kernel", expand=lambda ix: [(mode,) for mode in ("cross", "same_eval_corrected", "same_train")], replay=lambda *a: replay_c09(*a),
      functions=[f"{IPK}._get_covariance", f"{IPK}._inducing_inv_root", f"{IPK}._inducing_mat", f"{IPK}.forward"], timeout=300)
def inducing_point_kernel(c, mode):
    """with the upper Cholesky factor U of Kzz (callee: U^T U = Kzz) and R = solve_triangular(U, I) = U^-1 (callee):
        k(x1, x2) = (K_{x1 z} R) (K_{x2 z} R)^T                                                          (= K_{x1 z} Kzz^-1 K_{z x2}: Lean lemma lean/Nystrom.lean)
      x1 == x2 in evaluation mode with the diagonal correction: + diag(max(k_base(x, x) - diag(Q), 0));  training mode: Q itself, and the added loss term
      is built from N(0, diag k_base(x, x)), N(0, Q) and the kernel's likelihood."""
    it, ctx = c.it, c.ctx
    n1, n2, mz, d = c.size("n1"), c.size("n2"), c.size("m"), c.size("d")
    c.assume(z3.And(n1.t >= 1, n2.t >= 1, mz.t >= 1))
    same = mode != "cross"
    X1 = sym_tensor("x1", [n1.t, d.t])
    X2 = X1 if same else sym_tensor("x2", [n2.t, d.t])
    Z = sym_tensor("Z", [mz.t, d.t])
    K1, K2 = sym_tensor("K_x1z", [n1.t, mz.t]), sym_tensor("K_x2z", [n2.t, mz.t])
    Kzz = sym_tensor("Kzz", [mz.t, mz.t])
    kd = sym_tensor("kdiag_x1", [n1.t])
    U = sym_tensor("U_chol_upper", [mz.t, mz.t])
    R = sym_tensor("R_inverse_root", [mz.t, mz.t])
    rec = {"chol": [], "tri": [], "base": []}

    def base_call(a, b=None, diag=False, **k):
        dg = isinstance(diag, VBool) and diag.concrete() is True
        rec["base"].append((a, b, dg))
        if dg:
            return kd
        if a is Z and (b is Z or b is None):
            return Kzz
        if b is Z:
            return K1 if a is X1 else K2
        return sym_tensor("unexpected_base_kernel_call", [n1.t, n1.t])

    base = Stub("base_kernel", methods={"__call__": base_call}, isa=("Kernel", "Module"))
    lik = Stub("likelihood", isa=("GaussianLikelihood", "Likelihood", "Module"))
    o = module_obj(c, IPK, "kernel", training=VBool(mode == "same_train"))
    o.fields["_modules"].d["base_kernel"] = base
    o.fields["_modules"].d["likelihood"] = lik
    o.fields["likelihood"] = lik
    o.fields["_parameters"].d["inducing_points"] = Z
    o.fields["_added_loss_terms"].d["inducing_point_loss_term"] = NONE
    it.optable["linear_operator.utils.cholesky.psd_safe_cholesky"] = lambda it_, ctx_, a, k: (rec["chol"].append((a[0], k.get("upper"))), U)[1]
    it.optable["torch.linalg.solve_triangular"] = lambda it_, ctx_, a, k: (rec["tri"].append((a[0], a[1], k.get("upper"))), R)[1]
    it.optable["hook.torch.equal"] = lambda it_, ctx_, a, k: VBool(a[0] is a[1])
    c.ctx.classattrs[("gpytorch.settings.sgpr_diagonal_correction", "_state")] = TRUE
    res = it.call(ctx, c.getattr(o, "forward"), [X1, X2], {})
    i, j, a_, b_ = ivar("i"), ivar("j"), ivar("a"), ivar("b")
    c.assume(z3.And(i >= 0, i < n1.t, j >= 0, j < (n1.t if same else n2.t), a_ >= 0, a_ < mz.t, b_ >= 0, b_ < mz.t))
    ok = len(rec["chol"]) == 1 and len(rec["tri"]) == 1
    c.prove("nystrom.one_cholesky_one_triangular_solve", z3.BoolVal(ok))
    if not ok:
        return
    cm, up = rec["chol"][0]
    c.prove("nystrom.factorised_matrix_is_Kzz_upper", z3.And(z3.BoolVal(isinstance(up, VBool) and up.concrete() is True and len(cm.dims) == 2), cm.at_dims([a_, b_]) == Kzz.at([a_, b_])) if len(cm.dims) == 2 else z3.BoolVal(False))
    tm, eye, up2 = rec["tri"][0]
    c.prove("nystrom.inverse_root_is_solve_triangular_of_the_factor_against_identity", z3.And(z3.BoolVal(tm is U and isinstance(up2, VBool) and up2.concrete() is True and len(eye.dims) == 2),
                                                                                           eye.dims[0].size == mz.t, eye.at_dims([a_, b_]) == z3.If(a_ == b_, z3.RealVal(1), z3.RealVal(0))) if len(eye.dims) == 2 else z3.BoolVal(False))
    KA = K1
    KB = K1 if same else K2
    Q = lambda i_, j_: mk_sum(lambda p: mk_sum(lambda s_: KA.at([i_, s_]) * R.at([s_, p]), mz.t) * mk_sum(lambda t_: KB.at([j_, t_]) * R.at([t_, p]), mz.t), mz.t)  # noqa: E731
    okr = isinstance(res, VTensor) and len(res.dims) == 2
    if not okr:
        c.fail("nystrom.result_is_a_matrix", str(type(res)))
        return
    if mode == "same_eval_corrected":
        # k_base(x, x) - diag(Q) is a Schur complement, >= 0 for a valid kernel: the clamp only guards against rounding, so both readings are accepted
        corr = kd.at([i]) - Q(i, i)
        got = res.at_dims([i, j])
        val = z3.Or(got == Q(i, j) + z3.If(i == j, z3.If(corr < 0, z3.RealVal(0), corr), z3.RealVal(0)), got == Q(i, j) + z3.If(i == j, corr, z3.RealVal(0)))
    else:
        val = res.at_dims([i, j]) == Q(i, j)
    c.prove("nystrom.value", z3.And(res.dims[0].size == n1.t, res.dims[1].size == (n1.t if same else n2.t), val))
    if mode == "same_train":
        term = o.fields["_added_loss_terms"].d.get("inducing_point_loss_term")
        okt = isinstance(term, VObj) and term.cls.name == "InducingPointKernelAddedLossTerm"
        c.prove("nystrom.training_registers_the_trace_term", z3.BoolVal(okt and term.fields.get("likelihood") is lik))
        if okt:
            pd, vd = term.fields["prior_dist"], term.fields["variational_dist"]
            pc = pd.fields.get("_covar") if pd.fields.get("_covar") is not None else pd.fields.get("covariance_matrix")
            vc = vd.fields.get("_covar") if vd.fields.get("_covar") is not None else vd.fields.get("covariance_matrix")
            c.prove("nystrom.trace_term_distributions", z3.And(pc.at_dims([i, j]) == z3.If(i == j, kd.at([i]), z3.RealVal(0)), vc.at_dims([i, j]) == Q(i, j), pd.fields["loc"].at_dims([i]) == 0, vd.fields["loc"].at_dims([i]) == 0))
    c.ctx.assumptions.add("Lean 4.33 kernel and Mathlib are trusted for lean/Nystrom.lean (real matrices)")
    c.prove_lemma("nystrom.root_product_is_the_nystrom_matrix", "Nystrom.lean", "nystrom_root")


@case("C09", clause="titsias_trace_term", name="sgpr_trace_term", expand=lambda ix: [()], replay=lambda *a: replay_c09(*a), functions=[f"{IPL}.loss"])
def sgpr_trace_term(c):
    """InducingPointKernelAddedLossTerm.loss = -1/2 sum_i (Kxx[i, i] - Q[i, i]) / noise_i  (Titsias' regularisation trace term; with C02's MLL contract the training
    objective is (log N(y; m, Q + noise) + this term + priors) / n, the collapsed bound per data point)"""
    it, ctx = c.it, c.ctx
    n = c.size("n")
    c.assume(n.t >= 1)
    from contracts.dist_spec import make_mvn
    pd, vd = make_mvn(c, "prior", [], n.t), make_mvn(c, "nystrom", [], n.t)
    noise = sym_tensor("noise_diag", [n.t])
    calls = []
    lik = Stub("likelihood", methods={"_shaped_noise_covar": lambda shape, *p, **k: (calls.append(shape), E.diag_embed(c.ctx, noise))[1]}, isa=("GaussianLikelihood", "Likelihood"))
    ci = it.index.get_class(IPL)
    o = VObj(ci, label="trace_term")
    o.fields.update({"prior_dist": pd, "variational_dist": vd, "likelihood": lik})
    res = it.call(ctx, c.getattr(o, "loss"), [], {})
    from engine import dom_real
    Kp, Kq = pd.fields["_covar"], vd.fields["_covar"]
    want = z3.RealVal("-1/2") * mk_sum(lambda k: dom_real.rdiv(c.ctx, Kp.at([k, k]) - Kq.at([k, k]), noise.at([k])), n.t)
    c.prove("trace_term.noise_requested_for_the_data_shape", z3.BoolVal(len(calls) == 1))
    c.prove("trace_term.value", res.at_dims([]) == want if isinstance(res, VTensor) and len(res.dims) == 0 else z3.BoolVal(False))


def ipk_with_populated_caches(c):
    """an InducingPointKernel in evaluation mode whose caches were filled by the REAL getters (name-agnostic: the cache attributes are whatever
    `_inducing_inv_root` / `_inducing_mat` added to the object)"""
    it, ctx = c.it, c.ctx
    mz, d = c.size("m"), c.size("d")
    c.assume(mz.t >= 1)
    Z = sym_tensor("Z", [mz.t, d.t])
    rec = {"chol": 0, "base": 0}
    Kzz = sym_tensor("Kzz", [mz.t, mz.t])
    base = Stub("base_kernel", methods={"__call__": lambda *a, **k: (rec.__setitem__("base", rec["base"] + 1), Kzz)[1]}, isa=("Kernel", "Module"))
    o = module_obj(c, IPK, "kernel", training=FALSE)
    o.fields["_modules"].d["base_kernel"] = base
    o.fields["_parameters"].d["inducing_points"] = Z
    o.fields["_added_loss_terms"].d["inducing_point_loss_term"] = NONE
    U, R = sym_tensor("U_chol_upper", [mz.t, mz.t]), sym_tensor("R_inverse_root", [mz.t, mz.t])
    it.optable["linear_operator.utils.cholesky.psd_safe_cholesky"] = lambda it_, ctx_, a, k: (rec.__setitem__("chol", rec["chol"] + 1), U)[1]
    it.optable["torch.linalg.solve_triangular"] = lambda it_, ctx_, a, k: R
    before = set(o.fields)
    first = c.getattr(o, "_inducing_inv_root")
    added = set(o.fields) - before
    return o, rec, first, added


@case("C09", clause="nystrom_cache_lifecycle", name="inducing_point_cache_lifecycle", expand=lambda ix: [(op,) for op in ("hit", "_clear_cache", "train", "load_state_dict")], replay=lambda *a: replay_ipk_lifecycle(*a),
      functions=[f"{IPK}._inducing_inv_root", f"{IPK}._inducing_mat", f"{IPK}._clear_cache", "gpytorch.module.Module.train", "gpytorch.module.Module._load_from_state_dict"])
def inducing_point_cache_lifecycle(c, op):
    """'equals the Nystrom matrix' must survive a change of hyperparameters / inducing points: everything the evaluation-mode getters cache on the kernel
    (whatever the attributes are called) is served again unchanged while nothing changes (hit) and is gone after _clear_cache(), train() and a state-dict load"""
    it, ctx = c.it, c.ctx
    o, rec, first, added = ipk_with_populated_caches(c)
    if added:
        c.cover("ipk_cache.getters_cached_something")  # with no caching at all nothing can go stale and the clauses below hold trivially
    if op == "hit":
        n_ch, n_b = rec["chol"], rec["base"]
        again = c.getattr(o, "_inducing_inv_root")
        c.prove("ipk_cache.second_read_is_served_from_the_cache", z3.BoolVal(again is first and rec["chol"] == n_ch and rec["base"] == n_b))
        return
    if op == "_clear_cache":
        it.call(ctx, c.getattr(o, "_clear_cache"), [], {})
    elif op == "train":
        it.optable["torch.nn.Module.train"] = lambda it_, ctx_, a, k: a[0]
        it.call(ctx, c.getattr(o, "train"), [], {})
    else:
        it.optable["torch.nn.Module._load_from_state_dict"] = lambda it_, ctx_, a, k: NONE
        it.call(ctx, c.getattr(o, "_load_from_state_dict"), [VDict({}), VStr("prefix."), VDict({}), TRUE, VList([]), VList([]), VList([])], {})
    left = sorted(a for a in added if a in o.fields)
    c.prove(f"ipk_cache.{op}.drops_everything_the_getters_cached", z3.BoolVal(not left), still_cached=left)


def replay_ipk_lifecycle(model, params, clause, info):
    """real InducingPointKernel: evaluate in evaluation mode (fills the caches), change a hyperparameter through the operation of the case, evaluate again and
    compare with the dense Nystrom matrix of the NEW hyperparameters"""
    import torch
    import gpytorch
    (op,) = params
    torch.manual_seed(5)
    X, Z = torch.rand(6, 2, dtype=torch.double), torch.rand(3, 2, dtype=torch.double)
    lik = gpytorch.likelihoods.GaussianLikelihood().double()
    k = gpytorch.kernels.InducingPointKernel(gpytorch.kernels.RBFKernel().double(), inducing_points=Z.clone(), likelihood=lik).double()
    k.base_kernel.lengthscale = 0.7

    def dense():
        with torch.no_grad():
            Kxz = k.base_kernel(X, k.inducing_points).to_dense()
            Kzz = k.base_kernel(k.inducing_points, k.inducing_points).to_dense()
            return Kxz @ torch.linalg.solve(Kzz, Kxz.T)

    k.eval()
    with torch.no_grad(), gpytorch.settings.sgpr_diagonal_correction(False):
        first = k(X, X).to_dense()
        ok0 = torch.allclose(first, dense(), atol=1e-7)
        if op == "hit":
            again = k(X, X).to_dense()
            bad = not (ok0 and torch.allclose(again, first, atol=1e-12))
            return {"violates": bool(bad), "detail": f"two evaluation-mode reads agree: {not bad}",
                    "entry": {"module": "contracts.C09_structured", "function": "replay_ipk_lifecycle", "args": [model, list(params), clause, info]}}
        if op == "_clear_cache":
            k.base_kernel.lengthscale = 0.25
            k._clear_cache()
        elif op == "train":
            k.train()
            k.base_kernel.lengthscale = 0.25
            k.eval()
        else:
            # a state dict holding lengthscale 0.25: loading it must drop what was cached for 0.7
            sd = {kk: v.clone() for kk, v in k.state_dict().items()}
            sd["base_kernel.raw_lengthscale"] = gpytorch.constraints.Positive().inverse_transform(torch.tensor([[0.25]], dtype=torch.double))
            k.load_state_dict(sd)
        second = k(X, X).to_dense()
        want = dense()
        bad = not (ok0 and torch.allclose(second, want, atol=1e-7))
    return {"violates": bool(bad), "detail": f"after {op} with a changed lengthscale: max |k - Nystrom(new hyperparameters)| = {(second - want).abs().max().item():.3e}",
            "entry": {"module": "contracts.C09_structured", "function": "replay_ipk_lifecycle", "args": [model, list(params), clause, info]}}


# ------------------------------------------------------------------ d-dimensional interpolation: the combination across dimensions -----------
def _names(node, ctxt):
    """names read (ast.Load) / bound (ast.Store) by a statement; comprehension variables are local to the comprehension and are not counted"""
    import ast
    local = set()
    for n in ast.walk(node):
        if isinstance(n, ast.comprehension):
            local |= {m.id for m in ast.walk(n.target) if isinstance(m, ast.Name)}
    return {n.id for n in ast.walk(node) if isinstance(n, ast.Name) and isinstance(n.ctx, ctxt) and not (ctxt is ast.Store and n.id in local)}


def interpolate_regions(fi, cut=("dim_interp_indices", "dim_interp_values")):
    """Mechanical split of the real `Interpolation.interpolate` (re-done from the source on every run):

      prelude  = the statements before the `for i in range(num_dim)` loop,
      region A = the loop-body statements up to and including the last top-level definition of a CUT name from other names
                 (the one-dimensional weights / node indices: floor, nonzero, data-dependent boundary loops -- outside the executor's reach),
      region B = every loop-body statement after it (the combination across dimensions), executed in full.

    Of prelude and A only the backward data slice that B (and the return expression) needs is executed; the CUT names are havocked at the cut.
    Returns (loop node, prelude slice, A slice, B, return node, dropped line numbers)."""
    import ast
    body = fi.node.body
    loops = [k for k, st in enumerate(body) if isinstance(st, ast.For)]
    if len(loops) != 1:
        return None
    loop = body[loops[0]]
    lb = loop.body
    defs = [k for k, st in enumerate(lb) if isinstance(st, (ast.Assign, ast.AugAssign, ast.AnnAssign))
            and (_names(st, ast.Store) & set(cut)) and not (_names(st, ast.Load) & set(cut))]
    if not defs:
        return None
    k = max(defs)
    A, B = lb[: k + 1], lb[k + 1:]
    ret = [st for st in body[loops[0] + 1:] if isinstance(st, ast.Return)]
    if len(ret) != 1 or not B:
        return None
    needed = set().union(*[_names(st, ast.Load) for st in B]) | _names(ret[0], ast.Load) | _names(loop.iter, ast.Load)
    needed -= set(cut)
    pre = body[: loops[0]]
    keep = set()
    changed = True
    while changed:
        changed = False
        for st in pre + A:
            if id(st) in keep:
                continue
            stores = _names(st, ast.Store)
            is_assert = isinstance(st, ast.Assert) and _names(st, ast.Load) <= needed
            if (stores & needed and not stores & set(cut)) or is_assert:
                keep.add(id(st))
                needed |= _names(st, ast.Load) - set(cut)
                changed = True
    dropped = [st.lineno for st in pre + A if id(st) not in keep]
    return loop, [st for st in pre if id(st) in keep], [st for st in A if id(st) in keep], B, ret[0], dropped


@case("C09", clause="interpolation_combination", name="interpolate_combination", expand=lambda ix: [(d,) for d in (1, 2, 3)],
      replay=lambda *a: replay_interp_combination(*a), functions=[f"{IP}.interpolate"])
def interpolate_combination(c, d):
    """W[p, flat(k_0..k_{d-1})] = prod_i w_i[p, k_i] on a grid whose dimensions have *different* sizes g_0..g_{d-1} (symbolic): the part of the real
    `interpolate` that combines the one-dimensional node indices I_i (n x C) and weights V_i (n x C) -- arbitrary symbolic tensors here, the
    one-dimensional part is havocked -- must produce, in column col of row p,
        index  sum_i I_i[p, digit_i(col)] * prod_{j>i} g_j      (the lexicographic position in the g_0 x ... x g_{d-1} grid, dimension 0 slowest:
                                                                the ordering of the Kronecker-structured K_UU)
        value  prod_i V_i[p, digit_i(col)]                      with digit_i(col) = (col div C^(d-1-i)) mod C,
    and have shape n x C^d; every digit combination occurs exactly once (col <-> digits is the base-C expansion)."""
    import ast
    from engine.symexec import Env
    it, ctx = c.it, c.ctx
    fi = it.index.get_function(f"{IP}.interpolate")
    reg = interpolate_regions(fi)
    if reg is None:
        from engine.symexec import Undecided
        raise Undecided("interpolate: loop / cut statement not found (the function was restructured; the region contract needs re-anchoring)")
    loop, pre, A, B, ret, dropped = reg
    c.info["slice"] = {"executed_prelude_lines": [s.lineno for s in pre], "executed_region_A_lines": [s.lineno for s in A],
                       "executed_region_B_lines": [s.lineno for s in B], "dropped_lines": dropped,
                       "havocked_at_cut": ["dim_interp_indices", "dim_interp_values"]}
    ctx.assumptions.add("Interpolation.interpolate is verified as a region contract: the one-dimensional part of the loop body (source lines "
                        f"{min(dropped)}-{max(dropped)} except the executed slice lines {[s_.lineno for s_ in pre + A]}) is NOT executed; its results dim_interp_indices / "
                        "dim_interp_values are havocked (arbitrary n x C tensors) at the cut, the range checks that raise are dropped (partial correctness), "
                        "and the one-dimensional weights are covered by the _cubic_interpolation_kernel contract plus the bounded tier")
    n = c.size("n")
    g = [c.size(f"g{i}", minimum=4) for i in range(d)]
    x_grid = VList([sym_tensor(f"grid{i}", [g[i].t]) for i in range(d)])
    x_target = sym_tensor("x", [n.t, z3.IntVal(d)])
    o = VObj(it.index.get_class(IP), label="Interpolation")
    env = Env(module=fi.module, func=fi, defcls=fi.cls)
    it.bind_args(ctx, fi, [o, x_grid, x_target], {}, env)
    it.exec_block(ctx, pre, env)
    Cn = env.lookup("num_coefficients")
    C = Cn.concrete() if isinstance(Cn, VNum) else None
    if C is None:
        from engine.symexec import Undecided
        raise Undecided("num_coefficients is not a concrete integer on this path")
    I, V = [], []
    items = it.iterate(ctx, it.eval(ctx, loop.iter, env))
    c.prove("interp.one_iteration_per_grid_dimension", z3.BoolVal(len(items) == d))
    for k, x in enumerate(items):
        it.assign(ctx, loop.target, x, env)
        it.exec_block(ctx, A, env)
        I.append(sym_tensor(f"I{k}", [n.t, z3.IntVal(C)], "int"))
        V.append(sym_tensor(f"V{k}", [n.t, z3.IntVal(C)]))
        env.set("dim_interp_indices", I[-1])
        env.set("dim_interp_values", V[-1])
        it.exec_block(ctx, B, env)
    res = it.eval(ctx, ret.value, env)
    idx_t, val_t = res.items
    for nm, t in (("indices", idx_t), ("values", val_t)):
        sh = t.shape_tuple().items
        c.prove(f"interp.{nm}.shape", z3.And(z3.BoolVal(len(sh) == 2), sh[0].t == n.t, sh[1].t == C ** d) if len(sh) == 2 else z3.BoolVal(False))
    p = c.int("p")
    c.assume(z3.And(p.t >= 0, p.t < n.t))
    # the order of the C^d columns inside a row has no meaning (each column is an (index, value) pair): accept any significance order of the dimensions
    # in the column number.  The order is read off the value tensor (V_i are distinct uninterpreted functions); default = dimension 0 most significant.
    import itertools
    place = list(range(d))
    for cand in itertools.permutations(range(d)):
        ok = True
        for i in range(d):
            col1 = C ** (d - 1 - cand[i])  # the column whose only non-zero digit is a 1 in dimension i
            w = z3.RealVal(1)
            for j in range(d):
                w = w * V[j].at([p.t, z3.IntVal(1 if j == i else 0)])
            if not ctx.entails(val_t.at([p.t, z3.IntVal(col1)]) == w):
                ok = False
                break
        if ok:
            place = list(cand)
            break
    c.info["column_digit_significance"] = place
    for col in range(C ** d):
        digits = [(col // C ** (d - 1 - place[i])) % C for i in range(d)]
        want_i, want_v = z3.IntVal(0), z3.RealVal(1)
        for i in range(d):
            stride = z3.IntVal(1)
            for j in range(i + 1, d):
                stride = stride * g[j].t
            want_i = want_i + I[i].at([p.t, z3.IntVal(digits[i])]) * stride
            want_v = want_v * V[i].at([p.t, z3.IntVal(digits[i])])
        tag = "".join(str(x) for x in digits)
        c.prove(f"interp.index.lexicographic_position[{tag}]", idx_t.at([p.t, z3.IntVal(col)]) == want_i, sizes=[f"g{i}" for i in range(d)])
        c.prove(f"interp.value.product_of_the_one_dimensional_weights[{tag}]", val_t.at([p.t, z3.IntVal(col)]) == want_v)


def replay_interp_combination(model, params, clause, info):
    """the verifier's grid sizes (shifted into 8..12, differences kept where possible) on the real `interpolate`: the dense interpolation matrix the
    returned (index, value) pairs denote, against the Kronecker product of one-dimensional Keys weights computed independently of the code under test
    (interior points only: no boundary handling involved).  Independent of the column order of the result."""
    import torch
    from gpytorch.utils.interpolation import Interpolation
    d = int(params[0])
    raw = []
    for i in range(d):
        try:
            raw.append(int(str(model.get(f"g{i}"))))
        except Exception:
            raw.append(4 + 2 * i)
    g = [min(max(v + 4, 8), 12) for v in raw]
    if len(set(g)) == 1 and len(set(raw)) > 1:
        g = [8 + i for i in range(d)]
    torch.manual_seed(0)
    n = 7
    grids = [torch.linspace(0, 1, gi, dtype=torch.float64) for gi in g]
    x = torch.rand(n, d, dtype=torch.float64) * 0.2 + 0.4
    try:
        idx, val = Interpolation().interpolate(grids, x)
        total = 1
        for gi in g:
            total *= gi
        W = torch.zeros(n, total, dtype=torch.float64)
        W.scatter_add_(1, idx, val)
    except Exception as e:  # the changed code raises (or returns indices outside the grid) on an input the property covers
        return {"violates": True, "detail": f"grid sizes {g}: real interpolate fails on interior points: {type(e).__name__}: {str(e)[:200]}",
                "entry": {"module": "contracts.C09_structured", "function": "replay_interp_combination", "args": [model, list(params), clause, info]}}

    def keys(u):
        u = u.abs()
        return torch.where(u < 1, (1.5 * u - 2.5) * u * u + 1, torch.where(u < 2, ((-0.5 * u + 2.5) * u - 4) * u + 2, torch.zeros_like(u)))

    want = torch.ones(n, 1, dtype=torch.float64)
    for i in range(d):
        wi = keys((x[:, i:i + 1] - grids[i].unsqueeze(0)) * (g[i] - 1))  # n x g_i
        want = (want.unsqueeze(-1) * wi.unsqueeze(-2)).reshape(n, -1)   # dimension 0 slowest: the Kronecker order of the grid
    err = (W - want).abs().max().item()
    bad = err > 1e-9
    return {"violates": bool(bad), "detail": f"grid sizes {g}: dense interpolation matrix of the real interpolate vs Kronecker product of 1-d Keys weights: max abs diff {err:.3g}",
            "entry": {"module": "contracts.C09_structured", "function": "replay_interp_combination", "args": [model, list(params), clause, info]}}
