"""C17 (clause 5) -- prior densities equal their documented formulas (proof tier for the priors that
implement their own density; torch-backed priors delegate to torch.distributions = assumed).

  SmoothedBoxPrior._log_prob(x)[b] = sum_k [ log N(X_bk; 0, sigma_bk) - log(1 + (b_bk - a_bk)/(sqrt(2 pi) sigma_bk)) ],
                                     X = max(|x - (a+b)/2| - (b-a)/2, 0)    -- the normalised density of the class docstring,
                                     reduced over the event dimension ONLY (per batch element)
  HorseshoePrior.log_prob(x)       = log( (K/2 log(1 + 4 A) + K log(1 + 2 A)) / 2 ),  A = (scale/x)^2, K = 1/sqrt(2 pi^3)
"""
from __future__ import annotations

import z3

from engine import dom_elem as E
from engine import dom_real
from engine.dom_elem import Dim, VTensor, ivar, mk_sum, sym_tensor
from engine.optable_torch import VNormal
from engine.runner import case
from engine.values import FALSE, NONE, TRUE, VDict, VNum, VObj, VTuple

SB = "gpytorch.priors.smoothed_box_prior.SmoothedBoxPrior"
HS = "gpytorch.priors.horseshoe_prior.HorseshoePrior"


def pos_tensor(c, name, extents):
    t = sym_tensor(name, extents)
    f = t.meta["uf"]

    def elem(idx):
        v = f(*idx)
        c.ctx.assume(v > 0)
        return v

    t.elem = elem
    return t


@case("C17", clause="prior_density", functions=[f"{SB}._log_prob", f"{SB}.log_prob", f"{SB}._c", f"{SB}._r", f"{SB}._M"],
      expand=lambda ix: [(0,), (1,), (2,)], replay=lambda *a: replay_sb(*a))
def smoothed_box(c, batch_rank):
    it, ctx = c.it, c.ctx
    d = c.size("d")
    bs = []
    for k in range(batch_rank):
        b = c.size(f"b{k}")
        bs.append(b.t)
    shape = bs + [d.t]
    a = sym_tensor("a", shape)
    w = pos_tensor(c, "wid", shape)
    b = E.pointwise(ctx, [a, w], lambda x, y: x + y)
    sigma = pos_tensor(c, "sigma", shape)
    ci = it.index.get_class(SB)
    o = VObj(ci, label="prior")
    o.fields.update({
        "_parameters": VDict(), "_modules": VDict(), "_buffers": VDict({"a": a, "b": b, "sigma": sigma}),
        "_transform": NONE, "tails": VNormal(E.full(a.dims, z3.RealVal(0)), sigma), "training": TRUE,
        "_batch_shape": VTuple([VNum(x) for x in bs], is_size=True), "_event_shape": VTuple([VNum(d.t)], is_size=True),
    })
    x = sym_tensor("x", shape)
    r = it.call(ctx, c.getattr(o, "log_prob"), [x], {})
    c.prove("smoothed_box.rank", z3.BoolVal(len(r.dims) == batch_rank))
    bidx = []
    for k, e in enumerate(bs):
        v = ivar("b")
        c.assume(z3.And(v >= 0, v < e))
        bidx.append(v)
        c.prove(f"smoothed_box.extent[{k}]", r.dims[k].size == e)
    half_log_2pi = dom_real.apply(ctx, "log", dom_real.apply(ctx, "sqrt", 2 * dom_real.pi(ctx)))

    def term(k):
        i = bidx + [k]
        av, bv, sv, xv = a.at(i), b.at(i), sigma.at(i), x.at(i)
        cen, rad = (av + bv) / 2, (bv - av) / 2
        dist = xv - cen
        ad = z3.If(dist >= 0, dist, -dist) - rad
        X = z3.If(ad < 0, 0, ad)
        logn = -dom_real.rdiv(ctx, X * X, 2 * sv * sv) - dom_real.apply(ctx, "log", sv) - half_log_2pi
        M = dom_real.apply(ctx, "log", 1 + dom_real.rdiv(ctx, bv - av, dom_real.apply(ctx, "sqrt", 2 * dom_real.pi(ctx)) * sv))
        return logn - M

    want = mk_sum(term, d.t)
    c.prove_identity("smoothed_box.density", r.at(bidx), want)


@case("C17", clause="prior_density", functions=[f"{HS}.log_prob"], replay=lambda *a: replay_hs(*a))
def horseshoe(c):
    it, ctx = c.it, c.ctx
    d = c.size("d")
    scale = pos_tensor(c, "scale", [d.t])
    ci = it.index.get_class(HS)
    o = VObj(ci, label="prior")
    K = 1 / dom_real.apply(ctx, "sqrt", 2 * dom_real.pi(ctx) * dom_real.pi(ctx) * dom_real.pi(ctx))
    o.fields.update({"_parameters": VDict(), "_modules": VDict(), "_buffers": VDict({"scale": scale}), "_transform": NONE,
                     "K": VNum(K), "training": TRUE})
    x = sym_tensor("x", [d.t])
    k = ivar("k")
    c.assume(z3.And(k >= 0, k < d.t, x.at([k]) != 0))
    r = it.call(ctx, c.getattr(o, "log_prob"), [x], {})
    A = (scale.at([k]) / x.at([k])) * (scale.at([k]) / x.at([k]))
    lb = K / 2 * dom_real.apply(ctx, "log", 1 + 4 * A)
    ub = K * dom_real.apply(ctx, "log", 1 + 2 * A)
    c.prove_identity("horseshoe.density", r.at([k]), dom_real.apply(ctx, "log", (lb + ub) / 2))
    c.prove("horseshoe.extent", r.dims[0].size == d.t)


@case("C17", clause="prior_density", functions=[f"{HS}.__init__"], replay=lambda *a: replay_hs(*a))
def horseshoe_ctor(c):
    """the constant K set by the constructor is the documented 1/sqrt(2 pi^3)"""
    it, ctx = c.it, c.ctx
    s = c.real("s")
    c.assume(s.t > 0)
    hooks = []

    def hook(it_, ctx_, fi, args, kwargs):
        if not isinstance(fi, tuple) and fi.qualname.endswith("Distribution.__init__"):
            return NONE
        return NotImplemented

    o = it.call(ctx, c.cls(HS), [E.scalar(s.t)], {})
    Kv = o.fields["K"]
    want = 1 / dom_real.apply(ctx, "sqrt", 2 * dom_real.pi(ctx) * dom_real.pi(ctx) * dom_real.pi(ctx))
    c.prove_identity("horseshoe.K", Kv.real(), want, {"pi": {"positive": True, "range": (3.14159, 3.1416)}})
    c.prove("horseshoe.scale_is_buffer", z3.BoolVal("scale" in o.fields["_buffers"].d))


def replay_sb(model, params, clause, info):
    import math
    import torch
    from gpytorch.priors import SmoothedBoxPrior
    (batch_rank,) = params
    bshape = [2, 3][:batch_rank]
    g = torch.Generator().manual_seed(1)
    a = torch.randn(*bshape, 3, dtype=torch.double, generator=g)
    b = a + 0.5 + torch.rand(*bshape, 3, dtype=torch.double, generator=g)
    sig = 0.05 + torch.rand(*bshape, 3, dtype=torch.double, generator=g)
    p = SmoothedBoxPrior(a, b, sig)
    x = a + (b - a) * (3 * torch.rand(*bshape, 3, dtype=torch.double, generator=g) - 1)
    got = p.log_prob(x)
    X = ((x - (a + b) / 2).abs() - (b - a) / 2).clamp(min=0)
    want = (-(X ** 2) / (2 * sig ** 2) - sig.log() - 0.5 * math.log(2 * math.pi) - torch.log(1 + (b - a) / (math.sqrt(2 * math.pi) * sig))).sum(-1)
    ok = got.shape == want.shape and torch.allclose(got, want, atol=1e-10)
    return {"violates": not ok, "detail": f"batch shape {bshape}: log_prob shape {tuple(got.shape)} vs {tuple(want.shape)}, max diff "
                                          f"{(got - want).abs().max().item() if got.shape == want.shape else 'n/a'}",
            "entry": {"module": "contracts.C17_priors", "function": "replay_sb", "args": [model, list(params), clause, info]}}


def replay_hs(model, params, clause, info):
    import math
    import torch
    from gpytorch.priors import HorseshoePrior
    s = torch.tensor([0.3, 1.0, 2.5], dtype=torch.double)
    p = HorseshoePrior(s)
    x = torch.tensor([0.2, -1.5, 4.0], dtype=torch.double)
    K = 1 / math.sqrt(2 * math.pi ** 3)
    A = (s / x) ** 2
    want = torch.log((K / 2 * torch.log(1 + 4 * A) + K * torch.log(1 + 2 * A)) / 2)
    got = p.log_prob(x)
    ok = torch.allclose(got, want, atol=1e-12) and abs(p.K - K) < 1e-15
    return {"violates": not ok, "detail": f"horseshoe log_prob {got.tolist()} vs documented {want.tolist()}; K={p.K}",
            "entry": {"module": "contracts.C17_priors", "function": "replay_hs", "args": [model, list(params), clause, info]}}
