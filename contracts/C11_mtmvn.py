"""C11 -- MultitaskMultivariateNormal: one joint distribution regardless of layout, constructor, index.

Functions under contract (real AST, every run):
  _normalize_index, _normalize_slice, MultitaskMultivariateNormal.{__init__, mean, variance, log_prob,
  rsample, get_base_samples, to_data_independent_dist, __getitem__, from_batch_mvn,
  from_independent_mvns, from_repeated_mvn, expand}
Spec = the abstract view in contracts/dist_spec.py (flat(i,a) = i*t+a interleaved, a*n+i otherwise).
All extents (n, t, batch sizes), all index contents (ints, slice start/stop/step incl. None, index
tensor values) are symbolic; batch *rank* and the tuple of index *kinds* are enumerated (stated).
"""
from __future__ import annotations

import itertools

import z3

from engine import dom_elem as E
from engine.dom_elem import Dim, VTensor, ivar, sym_tensor
from engine.runner import case
from engine.values import ELLIPSIS, FALSE, NONE, TRUE, PyRaise, VBool, VNum, VObj, VSlice, VTuple, Val
from contracts.dist_spec import (MTMVN, MVN, View, coord_tensors, flat, fresh_in_range, make_mtmvn, make_mvn,
                                 prove_tensor_eq, size_tuple)

MOD = "gpytorch.distributions.multitask_multivariate_normal"
F = lambda n: f"{MOD}.MultitaskMultivariateNormal.{n}"


def sizes(c, batch_rank):
    n, t = c.size("n"), c.size("t")
    bs = []
    for k in range(batch_rank):
        b = c.size(f"b{k}")
        bs.append(b.t)
    return n.t, t.t, bs


# ------------------------------------------------------------------ helpers -----------------------
@case("C11", clause="normalize_index", functions=[f"{MOD}._normalize_index"], replay=lambda *a: replay_helper(*a))
def normalize_index(c):
    i, n = c.int("i"), c.int("dim_size")
    c.assume(z3.And(n.t >= 1, i.t >= -n.t, i.t < n.t))
    r = c.call(f"{MOD}._normalize_index", i, n)
    c.prove("post", z3.And(r.t >= 0, r.t < n.t, z3.Or(r.t == i.t, r.t == i.t + n.t)))


@case("C11", clause="normalize_slice", functions=[f"{MOD}._normalize_slice"], replay=lambda *a: replay_helper(*a))
def normalize_slice(c):
    """result must be the clamped Python progression of s on a dim of size n (callers add offsets to
    start/stop, so an unclamped result reaches into neighbouring rows)"""
    n = c.int("dim_size")
    c.assume(n.t >= 1)
    s = VSlice(c.opt_int("start"), c.opt_int("stop"), c.opt_int("step"))
    c.assume(z3.Or(Val.is_none(s.step.t), s.step.i >= 1), "slice step is None or >= 1 (torch rejects the rest)")
    st, cnt, step = E.slice_params(c.ctx, s, n.t)
    r = c.call(f"{MOD}._normalize_slice", s, n)
    def as_int(v):
        return v.force(c.it, c.ctx).t if hasattr(v, "force") else v.t

    rs, re, rstep = as_int(r.start), as_int(r.stop), as_int(r.step)
    rcnt = z3.If(re > rs, (re - rs + rstep - 1) / rstep, 0)
    c.prove("step", rstep == step)
    c.prove("count", rcnt == cnt)
    c.prove("start", z3.Implies(cnt > 0, rs == st))
    c.prove("within_dim", z3.And(rs >= 0, z3.Implies(cnt > 0, rs + (cnt - 1) * rstep < n.t), re <= n.t + rstep - 1))


def replay_helper(model, params, clause, info):
    import importlib
    m = importlib.import_module(MOD)
    if clause.startswith("post"):
        i, n = model["i"], model["dim_size"]
        got = m._normalize_index(i, n)
        ok = got == list(range(n))[i]
        return {"violates": not ok, "detail": f"_normalize_index({i},{n}) = {got}",
                "entry": {"module": "contracts.C11_mtmvn", "function": "replay_helper", "args": [model, [], clause, info]}}
    n = model["dim_size"]
    s = slice(model.get("start"), model.get("stop"), model.get("step"))
    got = m._normalize_slice(s, n)
    want = list(range(n))[s]
    have = list(range(got.start, got.stop, got.step))
    # callers use start/stop arithmetically: the progression itself (not re-clamped) must equal Python's
    ok = have == want
    return {"violates": not ok, "detail": f"_normalize_slice({s},{n}) = {got}: progression {have[:12]} vs python {want[:12]}",
            "entry": {"module": "contracts.C11_mtmvn", "function": "replay_helper", "args": [model, [], clause, info]}}


# ------------------------------------------------------------------ mean / variance layout ------------
def _lay(index):
    return [(il, br) for il in (True, False) for br in (0, 1, 2)]


@case("C11", clause="mean.layout", functions=[F("mean")], expand=_lay, replay=lambda *a: replay_layout(*a))
def mean_layout(c, interleaved, batch_rank):
    n, t, bs = sizes(c, batch_rank)
    d = make_mtmvn(c, "d", bs, n, t, interleaved)
    m = c.getattr(d, "mean")
    v = View(c, d)
    prove_tensor_eq(c, "mean", m, v.mean_tensor())


@case("C11", clause="variance.layout", functions=[F("variance"), f"{MVN}.variance"], expand=_lay, replay=lambda *a: replay_layout(*a))
def variance_layout(c, interleaved, batch_rank):
    n, t, bs = sizes(c, batch_rank)
    d = make_mtmvn(c, "d", bs, n, t, interleaved)
    mv = symbolic_min_variance(c)
    var = c.getattr(d, "variance")
    v = View(c, d)
    b = fresh_in_range(c, bs, "b")
    i, a = fresh_in_range(c, [n, t], "e")
    got = var.at_dims(b + [i, a])
    diag = v.cov_at(b, [i, a], [i, a])
    c.instantiate_facts([b + [i, a], b + [flat(i, a, n, t, interleaved)]])
    # the reported variance of pair (i,a) is its diagonal entry, raised to min_variance where below
    c.prove("variance.elem", got == z3.If(diag < mv, mv, diag))
    for p, e in enumerate(bs + [n, t]):
        c.prove(f"variance.extent[{p}]", var.dims[p].size == e)


def symbolic_min_variance(c):
    """settings.min_variance holds an arbitrary positive value for the dtype in use"""
    mv = c.real("min_variance")
    c.assume(mv.t > 0)
    for f in ("_global_float_value", "_global_double_value", "_global_half_value"):
        c.ctx.classattrs[("gpytorch.settings.min_variance", f)] = mv
    return mv.t


# ------------------------------------------------------------------ __init__ ---------------------------
@case("C11", clause="init.flatten", functions=[F("__init__"), f"{MVN}.__init__"], expand=_lay, replay=lambda *a: replay_layout(*a))
def init_flatten(c, interleaved, batch_rank):
    n, t, bs = sizes(c, batch_rank)
    N = n * t
    mean = sym_tensor("mean", bs + [n, t])
    cov = sym_tensor("cov", bs + [N, N], is_linop=True)
    cls = c.cls(MTMVN)
    d = c.it.call(c.ctx, cls, [mean, cov], {"interleaved": VBool(interleaved)})
    v = View(c, d)
    c.prove("init.interleaved_flag", z3.BoolVal(v.interleaved == interleaved))
    c.prove("init.n", v.n == n)
    c.prove("init.t", v.t == t)
    b = fresh_in_range(c, bs, "b")
    i, a = fresh_in_range(c, [n, t], "e")
    j, cc = fresh_in_range(c, [n, t], "f")
    c.prove("init.mean", v.mean_at(b, [i, a]) == mean.at(b + [i, a]))
    c.prove("init.cov", v.cov_at(b, [i, a], [j, cc]) == cov.at(b + [flat(i, a, n, t, interleaved), flat(j, cc, n, t, interleaved)]))


# ------------------------------------------------------------------ log_prob / rsample -----------------
def _hook_super(c, method, handler):
    """verify the caller against the callee's contract: intercept MultivariateNormal.<method>"""
    target = f"{MVN}.{method}"

    def hook(it, ctx, fi, args, kwargs):
        if not isinstance(fi, tuple) and fi.qualname == target:
            return handler(args, kwargs)
        return NotImplemented

    c.it.call_hooks.append(hook)


@case("C11", clause="log_prob.layout", functions=[F("log_prob")], expand=_lay, replay=lambda *a: replay_layout(*a))
def log_prob_layout(c, interleaved, batch_rank):
    """the value handed to the single-output log density must be in the flat layout of the covariance:
    vflat(b, flat(i,a)) = value(b, i, a) -- then log_prob is the joint density of the same Gaussian"""
    n, t, bs = sizes(c, batch_rank)
    d = make_mtmvn(c, "d", bs, n, t, interleaved)
    value = sym_tensor("value", bs + [n, t])
    seen = {}

    def handler(args, kwargs):
        seen["value"] = args[1] if len(args) > 1 else kwargs["value"]
        return sym_tensor("logp", bs)

    _hook_super(c, "log_prob", handler)
    r = c.it.call(c.ctx, c.getattr(d, "log_prob"), [value], {})
    vf = seen["value"]
    b = fresh_in_range(c, bs, "b")
    i, a = fresh_in_range(c, [n, t], "e")
    c.prove("log_prob.flat_value.rank", z3.BoolVal(len(vf.dims) == batch_rank + 1))
    c.prove("log_prob.flat_value.extent", vf.dims[-1].size == n * t)
    from contracts.dist_spec import _dim_index
    c.prove("log_prob.flat_value.elem", vf.at_dims(b + [_dim_index(c.ctx, vf.dims[-1], i, a, n, t, interleaved)]) == value.at(b + [i, a]))
    c.prove("log_prob.returns_base_density", z3.BoolVal(r is not None and r.label == "logp"))


@case("C11", clause="rsample.layout", functions=[F("rsample"), F("get_base_samples")], expand=_lay, replay=lambda *a: replay_layout(*a))
def rsample_layout(c, interleaved, batch_rank):
    """samples of the flat Gaussian are returned with entry (i,a) = flat position flat(i,a);
    with base samples: the flat base-sample tensor has the flat event size and is a bijective
    re-arrangement of the given base samples (i.i.d. noise: any bijection denotes the same law)"""
    n, t, bs = sizes(c, batch_rank)
    d = make_mtmvn(c, "d", bs, n, t, interleaved)
    S = c.int("s")
    c.assume(S.t >= 1)
    N = n * t
    seen = {}

    def handler(args, kwargs):
        seen["kwargs"] = kwargs
        ss = kwargs.get("sample_shape")
        return sym_tensor("flat_samples", [x.t for x in ss.items] + bs + [N])

    _hook_super(c, "rsample", handler)
    # (a) no base samples
    r = c.it.call(c.ctx, c.getattr(d, "rsample"), [size_tuple([S.t])], {})
    sidx = fresh_in_range(c, [S.t], "s")
    b = fresh_in_range(c, bs, "b")
    i, a = fresh_in_range(c, [n, t], "e")
    fs = z3.Function("flat_samples", *([z3.IntSort()] * (batch_rank + 2) + [z3.RealSort()]))
    for p, e in enumerate([S.t] + bs + [n, t]):
        c.prove(f"rsample.extent[{p}]", r.dims[p].size == e)
    c.prove("rsample.elem", r.at_dims(sidx + b + [i, a]) == fs(*(sidx + b + [flat(i, a, n, t, interleaved)])))
    # (b) with base samples of shape s x batch x n x t
    base = sym_tensor("base", [S.t] + bs + [n, t])
    r2 = c.it.call(c.ctx, c.getattr(d, "rsample"), [], {"base_samples": base})
    bflat = seen["kwargs"]["base_samples"]
    c.prove("rsample.base.rank", z3.BoolVal(len(bflat.dims) == batch_rank + 2))
    c.prove("rsample.base.extent", bflat.dims[-1].size == N)
    # each flat base-sample entry is one of the given entries, and distinct flat positions take distinct entries
    c.prove("rsample.base.elem", r2.at_dims(sidx + b + [i, a]) == fs(*(sidx + b + [flat(i, a, n, t, interleaved)])))


# ------------------------------------------------------------------ to_data_independent_dist -----------
@case("C11", clause="to_data_independent_dist", functions=[F("to_data_independent_dist")], expand=_lay,
      replay=lambda *a: replay_layout(*a))
def to_data_independent(c, interleaved, batch_rank):
    n, t, bs = sizes(c, batch_rank)
    d = make_mtmvn(c, "d", bs, n, t, interleaved)
    jit = c.real("jitter")
    r = c.it.call(c.ctx, c.getattr(d, "to_data_independent_dist"), [], {"jitter_val": jit})
    v, rv = View(c, d), View(c, r)
    c.prove("tdid.is_mvn", z3.BoolVal(not rv.mt))
    b = fresh_in_range(c, bs, "b")
    i, a = fresh_in_range(c, [n, t], "e")
    (a2,) = fresh_in_range(c, [t], "f")
    c.prove("tdid.mean", rv.mean_at(b + [i], [a]) == v.mean_at(b, [i, a]))
    c.prove("tdid.cov", rv.cov_at(b + [i], [a], [a2]) == v.cov_at(b, [i, a], [i, a2]) + z3.If(a == a2, jit.t, 0))
    c.prove("tdid.event", rv.loc.dims[-1].size == t)


# ------------------------------------------------------------------ __getitem__ ------------------------
KINDS_EVENT = [("int", "int"), ("int", "slice"), ("slice", "int"), ("slice", "slice"), ("full", "full"),
               ("tensor", "slice"), ("slice", "tensor"), ("tensor", "tensor"), ("int", "full"), ("full", "int"),
               ("slice", "full"), ("full", "slice")]


def getitem_cases(index):
    out = []
    for il in (True, False):
        for br in (0, 1):
            bkinds = list(itertools.product(["int", "slice"], repeat=br))
            for bk in bkinds:
                for ek in KINDS_EVENT:
                    out.append((il, br, "+".join(bk + ek)))
                # task index omitted
                for pk in ("int", "slice", "full"):
                    out.append((il, br, "+".join(bk + (pk,)) + "+omitted"))
            if br >= 1:
                out.append((il, br, "int+batchonly"))
                out.append((il, br, "slice+batchonly"))
            # ellipsis forms
            out.append((il, br, "ellipsis+slice+int"))
            out.append((il, br, "ellipsis+int"))
            out.append((il, br, "ellipsis+slice"))
            if br >= 1:
                out.append((il, br, "int+ellipsis"))
                out.append((il, br, "slice+ellipsis+int"))
    return out


def sym_index(c, kind, name, extent, tensor_len=None):
    """a symbolic index of the given kind, valid for a dim of size `extent`"""
    if kind == "int":
        i = c.int(name)
        c.assume(z3.And(i.t >= -extent, i.t < extent))
        return i
    if kind == "slice":
        s = VSlice(c.opt_int(name + ".start"), c.opt_int(name + ".stop"), c.opt_int(name + ".step"))
        c.assume(z3.Or(Val.is_none(s.step.t), s.step.i >= 1), "slice step is None or >= 1 (torch rejects the rest)")
        return s
    if kind == "full":
        return VSlice(NONE, NONE, NONE)
    if kind == "tensor":
        P = sym_tensor(name, [tensor_len], sort="int")
        f = P.meta["uf"]

        def elem(idx):
            # every entry is a valid index for the dim (ground instance of the universal precondition,
            # added at each term the entry is evaluated at -- keeps all VCs quantifier-free)
            v = f(*idx)
            c.ctx.assume(z3.And(v >= -extent, v < extent))
            return v

        P.elem = elem
        return P
    raise AssertionError(kind)


@case("C11", clause="getitem", functions=[F("__getitem__"), f"{MOD}._normalize_index", f"{MOD}._normalize_slice", F("__init__"),
                                           f"{MVN}.__init__"],
      expand=getitem_cases, replay=lambda *a: replay_getitem(*a), timeout=600, max_paths=3000)
def getitem(c, interleaved, batch_rank, kinds):
    n, t, bs = sizes(c, batch_rank)
    d = make_mtmvn(c, "d", bs, n, t, interleaved)
    kl = kinds.split("+")
    L = c.int("L")
    c.assume(L.t >= 1)
    idx = []
    exts = bs + [n, t]
    pos = 0
    for kpos, kd in enumerate(kl):
        if kd == "ellipsis":
            idx.append(ELLIPSIS)
            pos = len(exts) - (len(kl) - kpos - 1)
            continue
        if kd in ("omitted", "batchonly"):
            continue
        idx.append(sym_index(c, kd, f"idx{pos}", exts[pos], tensor_len=L.t))
        pos += 1
    idxv = VTuple(idx) if len(idx) != 1 else (idx[0] if kl[0] != "tuple1" else VTuple(idx))
    getitem_spec(c, d, idxv, bs, n, t)


def getitem_spec(c, d, idxv, bs, n, t):
    """shared with C10: d[idx] has mean Mean[idx] and covariance = the sub-matrix of the selected pairs"""
    it, ctx = c.it, c.ctx
    v = View(c, d)
    mean_full = v.mean_tensor()
    # spec side first (it may raise for an invalid index: then nothing is required of the code)
    exc = c.raises(lambda: E.index_tensor(mean_full, it, ctx, idxv))
    if exc is not None:
        c.cover("spec_index_invalid")
        return
    mspec = c.last
    coords = [E.index_tensor(ct, it, ctx, idxv) for ct in coord_tensors(ctx, mean_full.dims)]
    res = it.call(ctx, c.getattr(d, "__getitem__"), [idxv], {})
    c.cover("indexed")
    rv = View(c, res)
    rmean = rv.mean_tensor()
    prove_tensor_eq(c, "getitem.mean", rmean, mspec)
    er = rv.event_rank()
    if len(mspec.dims) < er:
        # 0-d mean (int x int without batch): the single selected pair's variance
        c.prove("getitem.scalar_event", z3.BoolVal(len(mspec.dims) == 0 and er == 1))
        ii = [ct.at([]) for ct in coords]
        got = rv.cov.at_dims([]) if len(rv.cov.dims) == 0 else None
        if got is None:
            c.fail("getitem.cov.rank", "covariance of a 0-d selection is not 0-d")
        else:
            ev = v.event_rank()
            c.prove("getitem.cov.elem", got == v.cov_at(ii[:-ev], ii[-ev:], ii[-ev:]))
        return
    bdims = mspec.dims[: len(mspec.dims) - er]
    edims = mspec.dims[len(mspec.dims) - er:]
    bidx = fresh_in_range(c, [a for dd in bdims for a in dd.atoms], "b")
    e1 = fresh_in_range(c, [a for dd in edims for a in dd.atoms], "e")
    e2 = fresh_in_range(c, [a for dd in edims for a in dd.atoms], "f")
    nb = len(bs)
    src1 = [ct.at(bidx + e1) for ct in coords]
    src2 = [ct.at(bidx + e2) for ct in coords]
    same_batch = z3.And(*[x == y for x, y in zip(src1[:nb], src2[:nb])]) if nb else z3.BoolVal(True)
    if nb and er == 1 and len(edims) == 1 and not getattr(c, "allow_duplicate_batch_selection", False):
        # when a *batch* dimension becomes the event dimension (batch index tensor + int event index) the same batch
        # element must not be selected twice: the result is then documented as independent copies, which a repeated
        # element is not (precondition, stated in DESIGN C10)
        all_same = z3.And(*[x == y for x, y in zip(src1, src2)])
        distinct_pos = z3.Or(*[a != b for a, b in zip(e1, e2)])
        c.assume(z3.Implies(distinct_pos, z3.Not(all_same)), "batch index tensors that become the event dimension select distinct elements")
    want = z3.If(same_batch, v.cov_at(src1[:nb], src1[nb:], src2[nb:]), z3.RealVal(0))
    # result covariance at (b', e1, e2): event dims of the result view
    def ev(e):
        return list(e)
    got = rv.cov_at(_group(bdims, bidx), _event(rv, edims, e1), _event(rv, edims, e2))
    # result shape of the event part
    for p, (dd, ext) in enumerate(zip(edims, rv.event_extents())):
        c.prove(f"getitem.event_extent[{p}]", dd.size == ext)
    # the covariance handed to the constructor is square with exactly one row/column per selected entry
    nev = z3.IntVal(1)
    for dd in edims:
        nev = nev * dd.size
    c.prove("getitem.cov_extent[row]", rv.cov.dims[-2].size == nev)
    c.prove("getitem.cov_extent[col]", rv.cov.dims[-1].size == nev)
    c.prove("getitem.cov_batch_rank", z3.BoolVal(len(rv.cov.dims) - 2 <= len(bdims)))
    c.prove("getitem.cov.elem", got == want)
    return res


def _group(dims, flat_atoms):
    out = []
    p = 0
    for dd in dims:
        k = len(dd.atoms)
        out.append(flat_atoms[p: p + k] if k > 1 else flat_atoms[p])
        p += k
    return out


def _event(rv, edims, e):
    """event index list for View.cov_at: [k] or [i, a]; multi-atom dims are flattened"""
    g = _group(edims, e)
    out = []
    for dd, x in zip(edims, g):
        out.append(E.flat_index(dd.atoms, x) if isinstance(x, list) else x)
    return out


# ------------------------------------------------------------------ constructors -----------------------
def _fbm_cases(index):
    out = []
    for rank in (1, 2, 3):
        for td in range(-rank, rank):
            out.append((rank, td))
    return out


@case("C11", clause="from_batch_mvn", functions=[F("from_batch_mvn"), F("__init__")], expand=_fbm_cases, replay=lambda *a: replay_ctor(*a))
def from_batch_mvn(c, rank, task_dim):
    n = c.int("n")
    c.assume(n.t >= 1)
    bs = []
    for k in range(rank):
        b = c.int(f"b{k}")
        c.assume(b.t >= 1)
        bs.append(b.t)
    m = make_mvn(c, "m", bs, n.t)
    cls = c.cls(MTMVN)
    r = c.it.call(c.ctx, c.getattr(cls, "from_batch_mvn"), [m], {"task_dim": VNum(task_dim)})
    p = task_dim if task_dim >= 0 else task_dim + rank
    rv = View(c, r)
    T = bs[p]
    rest = bs[:p] + bs[p + 1:]
    c.prove("fbm.n", rv.n == n.t)
    c.prove("fbm.t", rv.t == T)
    c.prove("fbm.batch_rank", z3.BoolVal(rv.batch_rank == rank - 1))
    b = fresh_in_range(c, rest, "b")
    i, a = fresh_in_range(c, [n.t, T], "e")
    j, a2 = fresh_in_range(c, [n.t, T], "f")
    mv = View(c, m)
    full = b[:p] + [a] + b[p:]
    c.prove("fbm.mean", rv.mean_at(b, [i, a]) == mv.mean_at(full, [i]))
    c.prove("fbm.cov", rv.cov_at(b, [i, a], [j, a2]) == z3.If(a == a2, mv.cov_at(full, [i], [j]), 0))


@case("C11", clause="from_repeated_mvn", functions=[F("from_repeated_mvn"), F("from_batch_mvn"), f"{MVN}.expand"],
      expand=lambda index: [(0,), (1,), (2,)], replay=lambda *a: replay_ctor(*a))
def from_repeated_mvn(c, rank):
    n, T = c.int("n"), c.int("num_tasks")
    c.assume(z3.And(n.t >= 1, T.t >= 1))
    bs = []
    for k in range(rank):
        b = c.int(f"b{k}")
        c.assume(b.t >= 1)
        bs.append(b.t)
    m = make_mvn(c, "m", bs, n.t)
    cls = c.cls(MTMVN)
    r = c.it.call(c.ctx, c.getattr(cls, "from_repeated_mvn"), [m, T], {})
    rv, mv = View(c, r), View(c, m)
    c.prove("frm.n", rv.n == n.t)
    c.prove("frm.t", rv.t == T.t)
    b = fresh_in_range(c, bs, "b")
    i, a = fresh_in_range(c, [n.t, T.t], "e")
    j, a2 = fresh_in_range(c, [n.t, T.t], "f")
    c.prove("frm.mean", rv.mean_at(b, [i, a]) == mv.mean_at(b, [i]))
    c.prove("frm.cov", rv.cov_at(b, [i, a], [j, a2]) == z3.If(a == a2, mv.cov_at(b, [i], [j]), 0))


@case("C11", clause="from_independent_mvns", functions=[F("from_independent_mvns"), F("__init__")],
      expand=lambda index: [(k, r) for k in (2, 3) for r in (0, 1)], replay=lambda *a: replay_ctor(*a))
def from_independent_mvns(c, ntasks, rank):
    """list length (number of tasks) is enumerated (2, 3); n and batch sizes symbolic"""
    from engine.values import VList
    n = c.int("n")
    c.assume(n.t >= 1)
    bs = []
    for k in range(rank):
        b = c.int(f"b{k}")
        c.assume(b.t >= 1)
        bs.append(b.t)
    ms = [make_mvn(c, f"m{k}", bs, n.t) for k in range(ntasks)]
    cls = c.cls(MTMVN)
    r = c.it.call(c.ctx, c.getattr(cls, "from_independent_mvns"), [VList(ms)], {})
    rv = View(c, r)
    c.prove("fim.n", rv.n == n.t)
    c.prove("fim.t", rv.t == ntasks)
    b = fresh_in_range(c, bs, "b")
    i, a = fresh_in_range(c, [n.t, z3.IntVal(ntasks)], "e")
    j, a2 = fresh_in_range(c, [n.t, z3.IntVal(ntasks)], "f")
    mvs = [View(c, m) for m in ms]

    def pick(fn):
        r_ = fn(ntasks - 1)
        for k in range(ntasks - 2, -1, -1):
            r_ = z3.If(a == k, fn(k), r_)
        return r_

    c.prove("fim.mean", rv.mean_at(b, [i, a]) == pick(lambda k: mvs[k].mean_at(b, [i])))
    c.prove("fim.cov", rv.cov_at(b, [i, a], [j, a2]) == z3.If(a == a2, pick(lambda k: mvs[k].cov_at(b, [i], [j])), 0))


@case("C11", clause="expand", functions=[F("expand")], expand=lambda index: [(il,) for il in (True, False)], replay=lambda *a: replay_layout(*a))
def expand_case(c, interleaved):
    n, t, bs = sizes(c, 1)
    c.assume(bs[0] == 1)
    B = c.int("B")
    c.assume(B.t >= 1)
    d = make_mtmvn(c, "d", bs, n, t, interleaved)
    r = c.it.call(c.ctx, c.getattr(d, "expand"), [size_tuple([B.t])], {})
    v, rv = View(c, d), View(c, r)
    c.prove("expand.flag", z3.BoolVal(rv.interleaved == interleaved))
    (b,) = fresh_in_range(c, [B.t], "b")
    i, a = fresh_in_range(c, [n, t], "e")
    j, a2 = fresh_in_range(c, [n, t], "f")
    c.prove("expand.mean", rv.mean_at([b], [i, a]) == v.mean_at([z3.IntVal(0)], [i, a]))
    c.prove("expand.cov", rv.cov_at([b], [i, a], [j, a2]) == v.cov_at([z3.IntVal(0)], [i, a], [j, a2]))


# ------------------------------------------------------------------ replay adapters ---------------------
def _mk_real(n, t, bs, interleaved, seed=0):
    import torch
    from gpytorch.distributions import MultitaskMultivariateNormal as MT
    g = torch.Generator().manual_seed(seed)
    N = n * t
    A = torch.randn(*bs, N, N, dtype=torch.double, generator=g)
    S = A @ A.transpose(-1, -2) + N * torch.eye(N, dtype=torch.double)
    mean = torch.randn(*bs, n, t, dtype=torch.double, generator=g)
    return MT(mean, S, interleaved=interleaved), mean, S


def _joint(d):
    """dense abstract view of a real distribution: mean (.., n, t) or (.., N); cov indexed [.., i, a, j, c]"""
    import torch
    from gpytorch.distributions import MultitaskMultivariateNormal as MT
    cov = d.lazy_covariance_matrix.to_dense()
    if isinstance(d, MT):
        n, t = d._output_shape[-2:]
        bs = cov.shape[:-2]
        if d._interleaved:
            c5 = cov.reshape(*bs, n, t, n, t)
            m = d.loc.reshape(*bs, n, t)
        else:
            c5 = cov.reshape(*bs, t, n, t, n).permute(*range(len(bs)), len(bs) + 1, len(bs), len(bs) + 3, len(bs) + 2)
            m = d.loc.reshape(*bs, t, n).transpose(-1, -2)
        return m, c5
    return d.loc, cov


def _dims(model, batch_rank):
    n = max(1, int(model.get("n", 2)))
    t = max(1, int(model.get("t", 2)))
    bs = [max(1, int(model.get(f"b{k}", 2))) for k in range(batch_rank)]
    return n, t, bs


def replay_layout(model, params, clause, info):
    import torch
    interleaved = params[0]
    batch_rank = params[1] if len(params) > 1 else 1
    n, t, bs = _dims(model, batch_rank)
    detail, bad = [], False
    # the counter-model fixes the sizes; also try neighbouring small non-square sizes (n != t matters for layout bugs)
    for (nn, tt) in [(n, t), (2, 3), (3, 2)]:
        d, mean, S = _mk_real(nn, tt, bs, interleaved)
        m5, c5 = _joint(d)
        if clause.startswith("mean") or clause.startswith("init"):
            ok = torch.equal(d.mean, mean) and torch.equal(m5, mean)
            detail.append(f"n={nn},t={tt}: mean property == constructor mean: {ok}")
            bad |= not ok
        elif clause.startswith("variance"):
            want = torch.diagonal(c5.reshape(*bs, nn * tt, nn * tt), dim1=-1, dim2=-2).reshape(*bs, nn, tt)
            ok = torch.allclose(d.variance, want)
            detail.append(f"n={nn},t={tt}: variance == diag of joint: {ok}")
            bad |= not ok
        elif clause.startswith("log_prob"):
            v = torch.randn(*bs, nn, tt, dtype=torch.double)
            ref = torch.distributions.MultivariateNormal(m5.reshape(*bs, -1), c5.reshape(*bs, nn * tt, nn * tt))
            want = ref.log_prob(v.reshape(*bs, -1))
            with __import__("gpytorch").settings.fast_computations(log_prob=False):
                got = d.log_prob(v)
            ok = torch.allclose(got, want, atol=1e-8)
            detail.append(f"n={nn},t={tt}: log_prob == dense joint log density: {ok} (max diff {(got - want).abs().max().item():.3e})")
            bad |= not ok
        elif clause.startswith("rsample"):
            torch.manual_seed(0)
            s = d.rsample(torch.Size([20000]))
            emp = s.reshape(20000, *bs, -1)
            emp = emp - emp.mean(0)
            ec = torch.einsum("s...i,s...j->...ij", emp, emp) / 20000
            want = c5.reshape(*bs, nn * tt, nn * tt)
            err = (ec - want).abs().max().item() / want.abs().max().item()
            ok = err < 0.08
            detail.append(f"n={nn},t={tt}: sample covariance vs joint rel err {err:.3f}")
            bad |= not ok
        elif clause.startswith("tdid"):
            r = d.to_data_independent_dist(jitter_val=0.0)
            idx = torch.arange(nn)
            want = c5[..., idx, :, idx, :]
            want = want.permute(*range(1, len(bs) + 1), 0, -2, -1) if bs else want
            ok = torch.allclose(r.lazy_covariance_matrix.to_dense(), want) and torch.allclose(r.mean, m5)
            detail.append(f"n={nn},t={tt}: to_data_independent_dist blocks: {ok}")
            bad |= not ok
        elif clause.startswith("expand"):
            d1, mean1, S1 = _mk_real(nn, tt, [1], interleaved)
            r = d1.expand(torch.Size([3]))
            m1, c1 = _joint(d1)
            mr, cr = _joint(r)
            ok = torch.allclose(mr, m1.expand(3, -1, -1)) and torch.allclose(cr, c1.expand(3, *c1.shape[1:]))
            detail.append(f"n={nn},t={tt}: expand: {ok}")
            bad |= not ok
    return {"violates": bad, "detail": "; ".join(detail),
            "entry": {"module": "contracts.C11_mtmvn", "function": "replay_layout", "args": [model, list(params), clause, info]}}


def _real_index(model, kinds, exts, L):
    import torch
    idx = []
    pos = 0
    kl = kinds.split("+")
    for kpos, kd in enumerate(kl):
        if kd == "ellipsis":
            idx.append(Ellipsis)
            pos = len(exts) - (len(kl) - kpos - 1)
            continue
        if kd in ("omitted", "batchonly"):
            continue
        nm = f"idx{pos}"
        if kd == "int":
            i = int(model.get(nm, 0))
            i = max(-exts[pos], min(exts[pos] - 1, i))
            idx.append(i)
        elif kd == "slice":
            idx.append(slice(model.get(nm + ".start"), model.get(nm + ".stop"), model.get(nm + ".step")))
        elif kd == "full":
            idx.append(slice(None))
        elif kd == "tensor":
            g = torch.Generator().manual_seed(pos)
            idx.append(torch.randint(-exts[pos], exts[pos], (L,), generator=g))
        pos += 1
    return tuple(idx) if len(idx) != 1 else idx[0]


def replay_getitem(model, params, clause, info):
    """real __getitem__ vs dense gather oracle, at the sizes / index contents of the counter-model and on a
    few neighbouring small shapes with the same index kinds"""
    import torch
    interleaved, batch_rank, kinds = params
    n, t, bs = _dims(model, batch_rank)
    L = max(1, min(4, int(model.get("L", 2))))
    tried = []
    for (nn, tt, bb) in [(n, t, bs), (max(n, 3), max(t, 2), bs), (4, 3, [2] * batch_rank), (3, 4, [2] * batch_rank)]:
        if nn * tt > 400:
            nn, tt = min(nn, 6), min(tt, 5)
        bb = [min(b, 3) for b in bb]
        d, mean, S = _mk_real(nn, tt, bb, interleaved)
        idx = _real_index(model, kinds, bb + [nn, tt], L)
        r = gather_check(d, idx)
        tried.append({"n": nn, "t": tt, "batch": bb, "idx": repr(idx), "result": r})
        if r.get("violates"):
            return {"violates": True, "detail": f"n={nn} t={tt} batch={bb} interleaved={interleaved} idx={idx!r}: {r['detail']}",
                    "entry": {"module": "contracts.C11_mtmvn", "function": "replay_getitem", "args": [model, list(params), clause, info]}}
    return {"violates": False, "detail": f"real code agrees with the gather oracle on {tried}"}


def gather_check(d, idx):
    """oracle: d[idx] must have mean mean[idx] and, for its event entries, the covariance of the selected pairs"""
    import torch
    from gpytorch.distributions import MultitaskMultivariateNormal as MT
    m5, c5 = _joint(d)
    try:
        want_mean = m5[idx]
    except Exception as e:
        return {"violates": False, "detail": f"index invalid for the mean ({e})"}
    try:
        r = d[idx]
    except Exception as e:
        return {"violates": True, "detail": f"valid index raised {type(e).__name__}: {e}"}
    mr, cr = _joint(r)
    if mr.shape != want_mean.shape or not torch.allclose(mr, want_mean):
        return {"violates": True, "detail": f"mean differs (shape {tuple(mr.shape)} vs {tuple(want_mean.shape)})"}
    # coordinates of every selected element
    shp = m5.shape
    grids = torch.meshgrid(*[torch.arange(s) for s in shp], indexing="ij")
    sel = [g[idx] for g in grids]
    er = 2 if isinstance(r, MT) else 1
    if want_mean.dim() < er:
        b = [int(s) for s in sel[:-2]]
        i, a = int(sel[-2]), int(sel[-1])
        want = c5[tuple(b) + (i, a, i, a)]
        got = r.lazy_covariance_matrix.to_dense().reshape(())
        ok = torch.allclose(got, want)
        return {"violates": not ok, "detail": f"scalar variance {got.item()} vs {want.item()}"}
    nb = want_mean.dim() - er
    bshape = want_mean.shape[:nb]
    eshape = want_mean.shape[nb:]
    E_ = int(torch.tensor(eshape).prod()) if len(eshape) else 1
    nel = E_ * E_
    for s_ in bshape:
        nel *= s_
    if cr.numel() != nel:
        return {"violates": True, "detail": f"covariance has shape {tuple(cr.shape)} but the selection has {E_} event entries per batch element {tuple(bshape)}"}
    covr = cr.reshape(*bshape, E_, E_)
    selb = [s.reshape(*bshape, E_) for s in sel]
    nbs = len(shp) - 2
    for bi in itertools.product(*[range(s) for s in bshape]):
        for p in range(E_):
            for q in range(E_):
                src1 = [int(s[bi + (p,)]) for s in selb]
                src2 = [int(s[bi + (q,)]) for s in selb]
                if src1[:nbs] == src2[:nbs]:
                    want = c5[tuple(src1[:nbs]) + (src1[-2], src1[-1], src2[-2], src2[-1])]
                else:
                    want = torch.zeros((), dtype=c5.dtype)
                got = covr[bi + (p, q)]
                if not torch.allclose(got, want, atol=1e-10):
                    return {"violates": True, "detail": f"cov entry {bi + (p, q)}: got {got.item():.6f}, selected pairs {src1},{src2} give {want.item():.6f}"}
    return {"violates": False, "detail": "ok"}


def replay_ctor(model, params, clause, info):
    try:
        return _replay_ctor(model, params, clause, info)
    except Exception as e:  # the real constructor raised on a valid input
        return {"violates": True, "detail": f"real constructor raised {type(e).__name__}: {str(e)[:300]}",
                "entry": {"module": "contracts.C11_mtmvn", "function": "replay_ctor", "args": [model, list(params), clause, info]}}


def _replay_ctor(model, params, clause, info):
    import torch
    from gpytorch.distributions import MultitaskMultivariateNormal as MT, MultivariateNormal as MV
    detail, bad = [], False

    def mk(bs, n, seed):
        g = torch.Generator().manual_seed(seed)
        A = torch.randn(*bs, n, n, dtype=torch.double, generator=g)
        return MV(torch.randn(*bs, n, dtype=torch.double, generator=g), A @ A.transpose(-1, -2) + n * torch.eye(n, dtype=torch.double))

    if clause.startswith("fbm"):
        rank, td = params
        for shape in ([2, 3, 4][:rank], [3, 3, 2][:rank], [2, 2, 2][:rank]):
            n = 3
            m = mk(shape, n, 1)
            r = MT.from_batch_mvn(m, task_dim=td)
            p = td if td >= 0 else td + rank
            mr, cr = _joint(r)
            mm = m.loc.movedim(p, -1)
            cm = m.lazy_covariance_matrix.to_dense().movedim(p, -3)  # rest..., t, n, n
            ok = mr.shape == mm.shape and torch.allclose(mr, mm)
            T = shape[p]
            for a in range(T):
                for a2 in range(T):
                    blk = cr[..., :, a, :, a2]
                    want = cm[..., a, :, :] if a == a2 else torch.zeros_like(blk)
                    ok = ok and blk.shape == want.shape and torch.allclose(blk, want)
            detail.append(f"batch {shape} task_dim {td}: {ok}")
            bad |= not ok
    elif clause.startswith("frm"):
        (rank,) = params
        shape = [2, 3][:rank]
        m = mk(shape, 3, 2)
        r = MT.from_repeated_mvn(m, 4)
        mr, cr = _joint(r)
        ok = torch.allclose(mr, m.loc.unsqueeze(-1).expand(*shape, 3, 4))
        cm = m.lazy_covariance_matrix.to_dense()
        for a in range(4):
            for a2 in range(4):
                blk = cr[..., :, a, :, a2]
                ok = ok and torch.allclose(blk, cm if a == a2 else torch.zeros_like(cm))
        detail.append(f"batch {shape}: {ok}")
        bad |= not ok
    elif clause.startswith("fim"):
        k, rank = params
        shape = [2][:rank]
        ms = [mk(shape, 3, 10 + j) for j in range(k)]
        r = MT.from_independent_mvns(ms)
        mr, cr = _joint(r)
        ok = torch.allclose(mr, torch.stack([m.loc for m in ms], -1))
        for a in range(k):
            for a2 in range(k):
                blk = cr[..., :, a, :, a2]
                want = ms[a].lazy_covariance_matrix.to_dense() if a == a2 else torch.zeros_like(blk)
                ok = ok and torch.allclose(blk, want)
        detail.append(f"{k} tasks batch {shape}: {ok}")
        bad |= not ok
    return {"violates": bad, "detail": "; ".join(detail),
            "entry": {"module": "contracts.C11_mtmvn", "function": "replay_ctor", "args": [model, list(params), clause, info]}}
