"""C12 -- Gaussian-family likelihoods add exactly the specified noise.

Functions under contract (real AST): _GaussianLikelihoodBase.{marginal, forward, expected_log_prob, log_marginal,
_shaped_noise_covar}, GaussianLikelihood.__init__/noise, FixedNoiseGaussianLikelihood.{__init__, _shaped_noise_covar,
noise, second_noise}, _HomoskedasticNoiseBase.{__init__, forward, noise}, FixedGaussianNoise.{__init__, forward},
_MultitaskGaussianLikelihoodBase.{marginal, _shaped_noise_covar, forward}, MultitaskGaussianLikelihood.{__init__, noise,
task_noises}, Likelihood.__call__, LikelihoodList.{__call__, forward, expected_log_prob}.

Likelihood objects are built by their REAL constructors (symbolically executed); the raw noise parameters are then
replaced by arbitrary symbolic tensors.  All extents (n, t, batch sizes) are symbolic; batch ranks enumerated.
"""
from __future__ import annotations

import z3

from engine import dom_elem as E
from engine import dom_real
from engine.dom_elem import Dim, VTensor, ivar, sym_tensor
from engine.runner import case
from engine.values import FALSE, NONE, TRUE, PyRaise, V, VBool, VBuiltin, VDict, VList, VNum, VObj, VStr, VTuple
from contracts.dist_spec import MTMVN, MVN, View, fresh_in_range, make_mtmvn, make_mvn, size_tuple, flat

GL = "gpytorch.likelihoods.gaussian_likelihood"
NM = "gpytorch.likelihoods.noise_models"
MG = "gpytorch.likelihoods.multitask_gaussian_likelihood"


def sym_param(name, extents):
    p = sym_tensor(name, extents)
    p.meta["is_parameter"] = True
    return p


def set_param(mod, name, t):
    mod.fields["_parameters"].d[name] = t


def batch_patterns():
    """(noise batch rank, dist batch rank) with broadcasting: equal sizes or absent"""
    return [(0, 0), (0, 1), (1, 0), (1, 1)]


def homosk_setup(c, nb, db):
    it, ctx = c.it, c.ctx
    n = c.size("n")
    B = c.size("B")
    lik = it.call(ctx, c.cls(f"{GL}.GaussianLikelihood"), [], {"batch_shape": size_tuple([B.t] if nb else [])})
    raw = sym_param("raw_noise", ([B.t] if nb else []) + [z3.IntVal(1)])
    set_param(lik.fields["_modules"].d["noise_covar"], "raw_noise", raw)
    dist = make_mvn(c, "f", [B.t] if db else [], n.t)
    return lik, dist, n.t, B.t


def noise_at(c, lik, b):
    """the likelihood's noise parameter sigma^2 for batch element b (read through the real getter)"""
    nz = c.getattr(lik, "noise")
    idx = ([b] if len(nz.dims) == 2 else []) + [z3.IntVal(0)]
    return nz.at(idx)


@case("C12", clause="marginal.homoskedastic", expand=lambda ix: batch_patterns(), replay=lambda *a: replay_lik(*a),
      functions=[f"{GL}._GaussianLikelihoodBase.marginal", f"{GL}._GaussianLikelihoodBase._shaped_noise_covar", f"{GL}.GaussianLikelihood.__init__",
                 f"{NM}._HomoskedasticNoiseBase.forward", f"{NM}._HomoskedasticNoiseBase.__init__", f"{NM}._HomoskedasticNoiseBase.noise",
                 "gpytorch.likelihoods.likelihood._Likelihood.__call__", "gpytorch.module.Module.__call__"])
def marginal_homoskedastic(c, nb, db):
    it, ctx = c.it, c.ctx
    lik, dist, n, B = homosk_setup(c, nb, db)
    res = it.call(ctx, lik, [dist], {})
    v, rv = View(c, dist), View(c, res)
    rb = max(nb, db)
    bidx = fresh_in_range(c, [B] * rb, "b")
    p, q = fresh_in_range(c, [n, n], "e")
    c.prove("marginal.class", z3.BoolVal(res.cls.qualname == MVN))
    c.prove("marginal.batch_rank", z3.BoolVal(len(rv.cov.dims) == rb + 2))
    c.prove("marginal.extent", z3.And(rv.cov.dims[-1].size == n, rv.cov.dims[-2].size == n, rv.loc.dims[-1].size == n))
    b_noise = bidx[0] if nb else None
    b_dist = bidx[-db:] if db else []
    c.prove("marginal.mean_unchanged", rv.mean_at(bidx[-len(rv.loc.dims) + 1:] if len(rv.loc.dims) > 1 else [], [p]) == v.mean_at(b_dist, [p]))
    sig = noise_at(c, lik, b_noise)
    # noise added exactly once: C + sigma^2 I
    c.prove("marginal.R_once", rv.cov_at(bidx, [p], [q]) == v.cov_at(b_dist, [p], [q]) + z3.If(p == q, sig, 0))
    c.prove("marginal.noise_at_least_bound", sig >= z3.RealVal("1e-4"))


def fixed_setup(c, learn, nb):
    it, ctx = c.it, c.ctx
    n = c.size("n")
    B = c.size("B")
    fixed = sym_tensor("fixed_noise", ([B.t] if nb else []) + [n.t])
    mfn = c.real("min_fixed_noise")
    c.assume(mfn.t > 0)
    for f in ("_global_float_value", "_global_double_value", "_global_half_value"):
        ctx.classattrs[("gpytorch.settings.min_fixed_noise", f)] = mfn
    lik = it.call(ctx, c.cls(f"{GL}.FixedNoiseGaussianLikelihood"), [], {"noise": fixed, "learn_additional_noise": VBool(learn)})
    if learn:
        set_param(lik.fields["_modules"].d["second_noise_covar"], "raw_noise", sym_param("raw_noise2", [z3.IntVal(1)]))
    return lik, fixed, mfn.t, n.t, B.t


@case("C12", clause="marginal.fixed_noise", expand=lambda ix: [(l, nb, mode) for l in (False, True) for nb in (0, 1) for mode in ("stored", "call_time", "mismatch")],
      replay=lambda *a: replay_lik(*a),
      functions=[f"{GL}.FixedNoiseGaussianLikelihood.__init__", f"{GL}.FixedNoiseGaussianLikelihood._shaped_noise_covar",
                 f"{NM}.FixedGaussianNoise.__init__", f"{NM}.FixedGaussianNoise.forward", f"{GL}._GaussianLikelihoodBase.marginal"])
def marginal_fixed(c, learn, nb, mode):
    it, ctx = c.it, c.ctx
    lik, fixed, mfn, n, B = fixed_setup(c, learn, nb)
    c.instantiate_facts([])
    m = c.size("m")  # number of points of the function distribution
    if mode == "stored":
        c.assume(m.t == n)
    elif mode == "mismatch":
        c.assume(m.t != n)
    dist = make_mvn(c, "f", [B] if nb else [], m.t)
    kwargs = {}
    if mode == "call_time":
        kwargs["noise"] = sym_tensor("call_noise", ([B] if nb else []) + [m.t])
    res = it.call(ctx, lik, [dist], kwargs)
    v, rv = View(c, dist), View(c, res)
    bidx = fresh_in_range(c, [B] if nb else [], "b")
    p, q = fresh_in_range(c, [m.t, m.t], "e")
    c.instantiate_facts([bidx + [p]])
    if mode == "stored":
        fv = fixed.at(bidx + [p])
        r = z3.If(fv < mfn, mfn, fv)  # stored noise is raised to settings.min_fixed_noise by the constructor
    elif mode == "call_time":
        r = kwargs["noise"].at(bidx + [p])  # in place of the stored noise
    else:
        r = z3.RealVal(0)  # documented no-op (with a warning)
    if learn:
        s2 = c.getattr(lik.fields["_modules"].d["second_noise_covar"], "noise").at([z3.IntVal(0)])
        r = r + s2
    c.prove("marginal.extent", z3.And(rv.cov.dims[-1].size == m.t, rv.cov.dims[-2].size == m.t))
    c.prove("marginal.R_once", rv.cov_at(bidx, [p], [q]) == v.cov_at(bidx, [p], [q]) + z3.If(p == q, r, 0), mode=mode, learn=learn)
    c.prove("marginal.mean_unchanged", rv.mean_at(bidx, [p]) == v.mean_at(bidx, [p]))
    if mode == "mismatch" and not learn:
        c.prove("marginal.mismatch_warns", z3.BoolVal("warnings.warn" in ctx.notes))


@case("C12", clause="forward", expand=lambda ix: [(0,), (1,)], replay=lambda *a: replay_lik(*a),
      functions=[f"{GL}._GaussianLikelihoodBase.forward"])
def forward_normal(c, nb):
    it, ctx = c.it, c.ctx
    lik, dist, n, B = homosk_setup(c, nb, nb)
    S = c.size("S")
    f = sym_tensor("fsamples", [S.t] + ([B] if nb else []) + [n])
    res = it.call(ctx, lik, [f], {})
    from engine.optable_torch import VNormal
    c.prove("forward.is_normal", z3.BoolVal(isinstance(res, VNormal)))
    idx = fresh_in_range(c, [S.t] + ([B] if nb else []) + [n], "i")
    sig = noise_at(c, lik, idx[1] if nb else None)
    loc = E.pointwise(ctx, [res.loc, f], lambda a, b: a)  # broadcast to the sample shape
    scale = E.pointwise(ctx, [res.scale, f], lambda a, b: a)
    c.prove("forward.loc", loc.at(idx) == f.at(idx))
    c.prove("forward.scale_sq_is_noise", z3.And(scale.at(idx) >= 0, scale.at(idx) * scale.at(idx) == sig))


@case("C12", clause="expected_log_prob", expand=lambda ix: [(0,), (1,)], replay=lambda *a: replay_lik(*a),
      functions=[f"{GL}._GaussianLikelihoodBase.expected_log_prob", f"{MVN}.variance"])
def expected_log_prob(c, nb):
    it, ctx = c.it, c.ctx
    lik, dist, n, B = homosk_setup(c, nb, nb)
    mv = c.real("min_variance")
    c.assume(mv.t > 0)
    for f in ("_global_float_value", "_global_double_value", "_global_half_value"):
        ctx.classattrs[("gpytorch.settings.min_variance", f)] = mv
    y = sym_tensor("y", ([B] if nb else []) + [n])
    res = it.call(ctx, c.getattr(lik, "expected_log_prob"), [y, dist], {})
    idx = fresh_in_range(c, ([B] if nb else []) + [n], "i")
    c.instantiate_facts([idx])
    v = View(c, dist)
    b = idx[:-1]
    m = v.mean_at(b, [idx[-1]])
    var0 = v.cov_at(b, [idx[-1]], [idx[-1]])
    var = z3.If(var0 < mv.t, mv.t, var0)
    r = noise_at(c, lik, idx[0] if nb else None)
    log2pi = dom_real.apply(ctx, "log", 2 * dom_real.pi(ctx))
    want = -((y.at(idx) - m) * (y.at(idx) - m) + var) / r / 2 - dom_real.apply(ctx, "log", r) / 2 - log2pi / 2
    c.prove_identity("expected_log_prob.closed_form", res.at(idx), want)
    c.prove("expected_log_prob.rank", z3.BoolVal(len(res.dims) == nb + 1))


@case("C12", clause="log_marginal", expand=lambda ix: [(0,), (1,)], replay=lambda *a: replay_lik(*a),
      functions=[f"{GL}._GaussianLikelihoodBase.log_marginal"])
def log_marginal(c, nb):
    it, ctx = c.it, c.ctx
    lik, dist, n, B = homosk_setup(c, nb, nb)
    mv = c.real("min_variance")
    c.assume(z3.And(mv.t > 0, mv.t < z3.RealVal("1e-4")))
    for f in ("_global_float_value", "_global_double_value", "_global_half_value"):
        ctx.classattrs[("gpytorch.settings.min_variance", f)] = mv
    y = sym_tensor("y", ([B] if nb else []) + [n])
    res = it.call(ctx, c.getattr(lik, "log_marginal"), [y, dist], {})
    idx = fresh_in_range(c, ([B] if nb else []) + [n], "i")
    c.instantiate_facts([idx])
    v = View(c, dist)
    b = idx[:-1]
    m = v.mean_at(b, [idx[-1]])
    r = noise_at(c, lik, idx[0] if nb else None)
    tot0 = v.cov_at(b, [idx[-1]], [idx[-1]]) + r
    tot1 = z3.If(tot0 < mv.t, mv.t, tot0)
    tot = z3.If(tot1 < z3.RealVal("1e-8"), z3.RealVal("1e-8"), tot1)
    sd = dom_real.apply(ctx, "sqrt", tot)
    half_log_2pi = dom_real.apply(ctx, "log", dom_real.apply(ctx, "sqrt", 2 * dom_real.pi(ctx)))
    want = -((y.at(idx) - m) * (y.at(idx) - m)) / (2 * sd * sd) - dom_real.apply(ctx, "log", sd) - half_log_2pi
    c.prove_identity("log_marginal.closed_form", res.at(idx), want)


def fixed_R(c, lik, fixed, mfn, mode, learn, call_noise, idx):
    """the documented noise variance of the fixed-noise likelihood for the point `idx` (spec)"""
    if mode == "stored":
        fv = fixed.at(idx)
        r = z3.If(fv < mfn, mfn, fv)
    elif mode == "call_time":
        r = call_noise.at(idx)
    else:
        r = z3.RealVal(0)
    if learn:
        r = r + c.getattr(lik.fields["_modules"].d["second_noise_covar"], "noise").at([z3.IntVal(0)])
    return r


@case("C12", clause="fixed_noise.entry_points", replay=lambda *a: replay_fixed_entry(*a),
      expand=lambda ix: [(l, mode, meth) for l in (False, True) for mode in ("stored", "call_time") for meth in ("expected_log_prob", "log_marginal", "forward")],
      functions=[f"{GL}._GaussianLikelihoodBase.expected_log_prob", f"{GL}._GaussianLikelihoodBase.log_marginal", f"{GL}._GaussianLikelihoodBase.forward",
                 f"{GL}.FixedNoiseGaussianLikelihood._shaped_noise_covar", f"{NM}.FixedGaussianNoise.forward"])
def fixed_entry_points(c, learn, mode, method):
    """every entry point of the fixed-noise likelihood uses the same documented R (call-time noise in place of the stored one)"""
    it, ctx = c.it, c.ctx
    lik, fixed, mfn, n, B = fixed_setup(c, learn, 0)
    mv = c.real("min_variance")
    c.assume(z3.And(mv.t > 0, mv.t < z3.RealVal("1e-8")))
    for f in ("_global_float_value", "_global_double_value", "_global_half_value"):
        ctx.classattrs[("gpytorch.settings.min_variance", f)] = mv
    dist = make_mvn(c, "f", [], n)
    kwargs = {}
    call_noise = None
    if mode == "call_time":
        call_noise = sym_tensor("call_noise", [n])
        kwargs["noise"] = call_noise
        (kk,) = fresh_in_range(c, [n], "pre")
    y = sym_tensor("y", [n])
    (p,) = fresh_in_range(c, [n], "i")
    c.instantiate_facts([[p]])
    v = View(c, dist)
    r = fixed_R(c, lik, fixed, mfn, mode, learn, call_noise, [p])
    c.assume(r > 0)
    m = v.mean_at([], [p])
    var0 = v.cov_at([], [p], [p])
    log2pi = dom_real.apply(ctx, "log", 2 * dom_real.pi(ctx))
    if method == "expected_log_prob":
        res = it.call(ctx, c.getattr(lik, "expected_log_prob"), [y, dist], kwargs)
        c.instantiate_facts([[p]])
        var = z3.If(var0 < mv.t, mv.t, var0)
        want = -((y.at([p]) - m) * (y.at([p]) - m) + var) / r / 2 - dom_real.apply(ctx, "log", r) / 2 - log2pi / 2
        c.prove_identity("fixed.expected_log_prob", res.at([p]), want)
    elif method == "log_marginal":
        res = it.call(ctx, c.getattr(lik, "log_marginal"), [y, dist], kwargs)
        c.instantiate_facts([[p]])
        tot0 = var0 + r
        tot1 = z3.If(tot0 < mv.t, mv.t, tot0)
        tot = z3.If(tot1 < z3.RealVal("1e-8"), z3.RealVal("1e-8"), tot1)
        sd = dom_real.apply(ctx, "sqrt", tot)
        half_log_2pi = dom_real.apply(ctx, "log", dom_real.apply(ctx, "sqrt", 2 * dom_real.pi(ctx)))
        want = -((y.at([p]) - m) * (y.at([p]) - m)) / (2 * sd * sd) - dom_real.apply(ctx, "log", sd) - half_log_2pi
        c.prove_identity("fixed.log_marginal", res.at([p]), want)
    else:
        res = it.call(ctx, lik, [y], kwargs)
        sc = res.scale.at([p])
        c.prove("fixed.forward_scale_sq", z3.And(sc >= 0, sc * sc == r))


# ------------------------------------------------------------------------------ multitask ---------------
def mt_cases(ix):
    out = []
    for il in (True, False):
        for rank0 in (True, False):
            for gn, tn in ((True, True), (True, False), (False, True)):
                if not tn and not rank0:
                    continue
                out.append((il, rank0, gn, tn))
    return out


@case("C12", clause="marginal.multitask", expand=mt_cases, replay=lambda *a: replay_mt(*a), timeout=240,
      functions=[f"{MG}._MultitaskGaussianLikelihoodBase.marginal", f"{MG}._MultitaskGaussianLikelihoodBase._shaped_noise_covar",
                 f"{MG}.MultitaskGaussianLikelihood.__init__", f"{MG}.MultitaskGaussianLikelihood.noise", f"{MG}.MultitaskGaussianLikelihood.task_noises"])
def marginal_multitask(c, interleaved, rank0, has_global, has_task):
    """K + (I_n (x) D_t [+ sigma^2 I]) in the layout of the input: entry ((i,a),(j,b)) gets delta_ij * (D[a,b] + sigma^2 delta_ab)"""
    it, ctx = c.it, c.ctx
    n, t = c.size("n"), c.size("t")
    kw = {"num_tasks": t, "has_global_noise": VBool(has_global), "has_task_noise": VBool(has_task)}
    if not rank0:
        rk = c.size("rank")
        c.assume(rk.t <= t.t)
        kw["rank"] = rk
    lik = it.call(ctx, c.cls(f"{MG}.MultitaskGaussianLikelihood"), [], kw)
    if has_global:
        set_param(lik, "raw_noise", sym_param("raw_noise", [z3.IntVal(1)]))
    if has_task:
        if rank0:
            set_param(lik, "raw_task_noises", sym_param("raw_task_noises", [t.t]))
        else:
            set_param(lik, "task_noise_covar_factor", sym_param("task_factor", [t.t, rk.t]))
    dist = make_mtmvn(c, "f", [], n.t, t.t, interleaved)
    res = it.call(ctx, lik, [dist], {})
    v, rv = View(c, dist), View(c, res)
    c.prove("mt.layout_kept", z3.BoolVal(rv.interleaved == interleaved))
    c.prove("mt.sizes", z3.And(rv.n == n.t, rv.t == t.t))
    i, a = fresh_in_range(c, [n.t, t.t], "e")
    j, b = fresh_in_range(c, [n.t, t.t], "f")
    sig = c.getattr(lik, "noise").at([z3.IntVal(0)]) if has_global else z3.RealVal(0)
    if has_task and rank0:
        D = z3.If(a == b, c.getattr(lik, "task_noises").at([a]), 0)
    elif has_task:
        F = lik.fields["_parameters"].d["task_noise_covar_factor"]
        D = E.mk_sum(lambda k: F.at([a, k]) * F.at([b, k]), rk.t)
    else:
        D = z3.RealVal(0)
    R = z3.If(i == j, D + z3.If(a == b, sig, 0), 0)
    c.prove("mt.kron_layout", rv.cov_at([], [i, a], [j, b]) == v.cov_at([], [i, a], [j, b]) + R, interleaved=interleaved)
    c.prove("mt.mean_unchanged", rv.mean_at([], [i, a]) == v.mean_at([], [i, a]))
    ext = rv.cov.dims[-1].size
    c.prove("mt.extent", ext == n.t * t.t)


# ------------------------------------------------------------------------------ LikelihoodList -----------
class Recorder(V):
    """a member likelihood that records how it is called (the callee's signature contract: positional
    function arguments, everything else by keyword)"""

    kind = "recorder"

    def __init__(self, log, name):
        self.log, self.name = log, name

    def py_call(self, it, ctx, args, kwargs):
        self.log.append((self.name, "__call__", list(args), dict(kwargs)))
        return VStr(f"out:{self.name}")

    def py_getattr(self, it, ctx, name):
        if name in ("forward", "expected_log_prob"):
            def f(it2, ctx2, a, k, name=name):
                self.log.append((self.name, name, list(a), dict(k)))
                return VStr(f"out:{self.name}")
            return VBuiltin(name, f)
        raise PyRaise(__import__("engine.values", fromlist=["VExc"]).VExc("AttributeError", name))


@case("C12", clause="likelihood_list", expand=lambda ix: [(m, wn) for m in ("__call__", "forward", "expected_log_prob") for wn in (False, True)
                                                           if not (m == "expected_log_prob" and wn)],
      replay=lambda *a: replay_list(*a),
      functions=["gpytorch.likelihoods.likelihood_list.LikelihoodList.__call__", "gpytorch.likelihoods.likelihood_list.LikelihoodList.forward",
                 "gpytorch.likelihoods.likelihood_list.LikelihoodList.expected_log_prob", "gpytorch.likelihoods.likelihood_list._get_tuple_args_",
                 "gpytorch.utils.generic.length_safe_zip"])
def likelihood_list(c, method, with_noise):
    """member i is applied to ITS arguments, with the caller's keyword arguments and (if given) noise=noise_i by keyword"""
    it, ctx = c.it, c.ctx
    ci = it.index.get_class("gpytorch.likelihoods.likelihood_list.LikelihoodList")
    log = []
    members = [Recorder(log, f"lik{k}") for k in range(3)]
    o = VObj(ci, label="ll")
    o.fields.update({"_parameters": VDict(), "_buffers": VDict(), "_modules": VDict(), "likelihoods": VList(members), "training": TRUE})
    args = [VStr("x0"), VTuple([VStr("x1a"), VStr("x1b")]), VStr("x2")]
    kwargs = {"flag": VStr("kw")}
    noises = [VStr("n0"), VStr("n1"), VStr("n2")]
    if with_noise:
        kwargs["noise"] = VList(noises)
    target = o if method == "__call__" else c.getattr(o, method)
    out = it.call(ctx, target, args, kwargs)
    c.prove("list.calls_each_member_once", z3.BoolVal([e[0] for e in log] == ["lik0", "lik1", "lik2"]))
    ok_args = all(len(e[2]) == (2 if k == 1 else 1) and all(getattr(x, "s", None) is not None for x in e[2]) for k, e in enumerate(log))
    c.prove("list.member_gets_own_positional_args", z3.BoolVal(ok_args and [x.s for x in log[1][2]] == ["x1a", "x1b"] and log[0][2][0].s == "x0"),
            got=[[x.describe() for x in e[2]] for e in log])
    want_kw = [dict(flag="kw", **({"noise": f"n{k}"} if with_noise else {})) for k in range(3)]
    got_kw = [{kk: getattr(vv, "s", vv.describe()) for kk, vv in e[3].items()} for e in log]
    c.prove("list.keyword_args", z3.BoolVal(got_kw == want_kw), got=got_kw, want=want_kw)
    c.prove("list.returns_member_outputs", z3.BoolVal([x.s for x in out.items] == ["out:lik0", "out:lik1", "out:lik2"]))


# ------------------------------------------------------------------------------ replay ------------------
def replay_lik(model, params, clause, info):
    """dense float64 check of the clause family on real likelihood objects (sizes from the counter-model where given)"""
    import math
    import torch
    import gpytorch
    from gpytorch.distributions import MultivariateNormal as MV
    from gpytorch.likelihoods import FixedNoiseGaussianLikelihood, GaussianLikelihood
    torch.manual_seed(0)
    n = int(model.get("n", 3)) if isinstance(model.get("n", 3), int) else 3
    n = max(1, min(n, 6))
    B = 2
    detail, bad = [], False

    def mvn(bs, m):
        A = torch.randn(*bs, m, m, dtype=torch.double)
        return MV(torch.randn(*bs, m, dtype=torch.double), A @ A.transpose(-1, -2) + torch.eye(m, dtype=torch.double))

    try:
        if clause.startswith("marginal") and "fixed" not in str(info) and len(params) == 2:
            nb, db = params
            lik = GaussianLikelihood(batch_shape=torch.Size([B] if nb else [])).double()
            lik.noise = torch.rand(*([B] if nb else []), 1, dtype=torch.double) + 0.1
            d = mvn([B] if db else [], n)
            r = lik(d)
            want = d.covariance_matrix + lik.noise.unsqueeze(-1) * torch.eye(n, dtype=torch.double)
            ok = torch.allclose(r.covariance_matrix, want) and torch.allclose(r.mean, d.mean.expand(r.mean.shape))
            detail.append(f"GaussianLikelihood marginal == C + sigma^2 I: {ok}")
            bad |= not ok
        elif len(params) == 3:
            learn, nb, mode = params
            bs = [B] if nb else []
            fixed = torch.rand(*bs, n, dtype=torch.double) + 0.05
            lik = FixedNoiseGaussianLikelihood(noise=fixed, learn_additional_noise=learn).double()
            m = n if mode != "mismatch" else n + 1
            d = mvn(bs, m)
            kw = {"noise": torch.rand(*bs, m, dtype=torch.double) + 0.3} if mode == "call_time" else {}
            import warnings
            with warnings.catch_warnings():
                warnings.simplefilter("ignore")
                r = lik(d, **kw)
            R = fixed if mode == "stored" else (kw["noise"] if mode == "call_time" else torch.zeros(*bs, m, dtype=torch.double))
            if learn:
                R = R + lik.second_noise
            want = d.covariance_matrix + torch.diag_embed(R.expand(*bs, m))
            ok = torch.allclose(r.covariance_matrix, want)
            detail.append(f"FixedNoise(learn={learn}, batch={bs}, {mode}): marginal covariance == C + R: {ok} (max diff {(r.covariance_matrix - want).abs().max().item():.3e})")
            bad |= not ok
        else:
            (nb,) = params
            bs = [B] if nb else []
            lik = GaussianLikelihood(batch_shape=torch.Size(bs)).double()
            lik.noise = torch.rand(*bs, 1, dtype=torch.double) + 0.1
            d = mvn(bs, n)
            y = torch.randn(*bs, n, dtype=torch.double)
            r = lik.noise
            if clause.startswith("expected_log_prob"):
                got = lik.expected_log_prob(y, d)
                want = -0.5 * (((y - d.mean) ** 2 + d.variance) / r + r.log() + math.log(2 * math.pi))
            elif clause.startswith("log_marginal"):
                got = lik.log_marginal(y, d)
                want = torch.distributions.Normal(d.mean, (d.variance + r).sqrt()).log_prob(y)
            else:
                f = torch.randn(4, *bs, n, dtype=torch.double)
                dist = lik(f)
                got = dist.scale.expand(f.shape) ** 2
                want = r.expand(f.shape)
            ok = torch.allclose(got, want)
            detail.append(f"{clause}: closed form agrees: {ok}")
            bad |= not ok
    except Exception as e:
        detail.append(f"real code raised {type(e).__name__}: {e}")
        bad = True
    return {"violates": bad, "detail": "; ".join(detail),
            "entry": {"module": "contracts.C12_gaussian_likelihoods", "function": "replay_lik", "args": [model, list(params), clause, info]}}


def replay_mt(model, params, clause, info):
    import torch
    from gpytorch.distributions import MultitaskMultivariateNormal as MT
    from gpytorch.likelihoods import MultitaskGaussianLikelihood
    from contracts.C11_mtmvn import _joint, _mk_real
    interleaved, rank0, gn, tn = params
    detail, bad = [], False
    for (n, t) in [(2, 3), (3, 2)]:
        torch.manual_seed(1)
        lik = MultitaskGaussianLikelihood(num_tasks=t, rank=0 if rank0 else 2, has_global_noise=gn, has_task_noise=tn).double()
        if gn:
            lik.noise = torch.tensor([0.37], dtype=torch.double)
        if tn and rank0:
            lik.task_noises = torch.arange(1, t + 1, dtype=torch.double) * 0.11
        d, mean, S = _mk_real(n, t, [], interleaved)
        try:
            r = lik(d)
        except Exception as e:
            return {"violates": True, "detail": f"raised {type(e).__name__}: {e}"}
        m0, c0 = _joint(d)
        m1, c1 = _joint(r)
        D = torch.zeros(t, t, dtype=torch.double)
        if tn and rank0:
            D = torch.diag(lik.task_noises.detach())
        elif tn:
            F = lik.task_noise_covar_factor.detach()
            D = F @ F.T
        if gn:
            D = D + lik.noise.detach() * torch.eye(t, dtype=torch.double)
        want = c0.clone()
        for i in range(n):
            want[i, :, i, :] += D
        ok = torch.allclose(c1, want, atol=1e-10) and torch.allclose(m0, m1)
        detail.append(f"n={n},t={t}: joint covariance == K + I_n (x) (D + s2 I): {ok} (max diff {(c1 - want).abs().max().item():.3e})")
        bad |= not ok
    return {"violates": bad, "detail": "; ".join(detail),
            "entry": {"module": "contracts.C12_gaussian_likelihoods", "function": "replay_mt", "args": [model, list(params), clause, info]}}


def replay_list(model, params, clause, info):
    import torch
    from gpytorch.distributions import MultivariateNormal as MV
    from gpytorch.likelihoods import FixedNoiseGaussianLikelihood, LikelihoodList
    method, with_noise = params
    torch.manual_seed(0)
    liks = [FixedNoiseGaussianLikelihood(noise=torch.rand(3) + 0.1) for _ in range(2)]
    ll = LikelihoodList(*liks)
    ds = [MV(torch.zeros(3), torch.eye(3)) for _ in range(2)]
    noises = [torch.rand(3) + 0.5 for _ in range(2)]
    try:
        if method == "__call__":
            out = ll(*ds, noise=noises) if with_noise else ll(*ds)
            want = [l(d, noise=nz) if with_noise else l(d) for l, d, nz in zip(liks, ds, noises)]
            ok = all(torch.allclose(a.covariance_matrix, b.covariance_matrix) for a, b in zip(out, want))
        elif method == "forward":
            fs = [torch.randn(3) for _ in range(2)]
            out = ll.forward(*fs, noise=noises) if with_noise else ll.forward(*fs)
            want = [l.forward(f, noise=nz) if with_noise else l.forward(f) for l, f, nz in zip(liks, fs, noises)]
            ok = all(torch.allclose(a.scale, b.scale) for a, b in zip(out, want))
        else:
            ys = [torch.randn(3) for _ in range(2)]
            out = ll.expected_log_prob(*[(y, d) for y, d in zip(ys, ds)])
            want = [l.expected_log_prob(y, d) for l, y, d in zip(liks, ys, ds)]
            ok = all(torch.allclose(a, b) for a, b in zip(out, want))
        return {"violates": not ok, "detail": f"LikelihoodList.{method}(noise={'list' if with_noise else 'absent'}) equals the members' own outputs: {ok}",
                "entry": {"module": "contracts.C12_gaussian_likelihoods", "function": "replay_list", "args": [model, list(params), clause, info]}}
    except Exception as e:
        return {"violates": True, "detail": f"LikelihoodList.{method}(noise={'list' if with_noise else 'absent'}) raised {type(e).__name__}: {e}",
                "entry": {"module": "contracts.C12_gaussian_likelihoods", "function": "replay_list", "args": [model, list(params), clause, info]}}


def replay_fixed_entry(model, params, clause, info):
    import math
    import torch
    from gpytorch.distributions import MultivariateNormal as MV
    from gpytorch.likelihoods import FixedNoiseGaussianLikelihood
    learn, mode, method = params
    torch.manual_seed(0)
    n = 4
    fixed = torch.rand(n, dtype=torch.double) + 0.05
    lik = FixedNoiseGaussianLikelihood(noise=fixed, learn_additional_noise=learn).double()
    A = torch.randn(n, n, dtype=torch.double)
    d = MV(torch.randn(n, dtype=torch.double), A @ A.T + torch.eye(n, dtype=torch.double))
    y = torch.randn(n, dtype=torch.double)
    kw = {"noise": torch.rand(n, dtype=torch.double) + 0.6} if mode == "call_time" else {}
    r = (kw["noise"] if mode == "call_time" else fixed) + (lik.second_noise if learn else 0.0)
    try:
        if method == "expected_log_prob":
            got = lik.expected_log_prob(y, d, **kw)
            want = -0.5 * (((y - d.mean) ** 2 + d.variance) / r + r.log() + math.log(2 * math.pi))
        elif method == "log_marginal":
            got = lik.log_marginal(y, d, **kw)
            want = torch.distributions.Normal(d.mean, (d.variance + r).sqrt()).log_prob(y)
        else:
            got = lik(y, **kw).scale ** 2
            want = r.expand(n)
        ok = torch.allclose(got, want, atol=1e-10)
        return {"violates": not ok, "detail": f"FixedNoise(learn={learn}).{method}({mode}) uses R = {'call-time' if mode == 'call_time' else 'stored'} noise{' + learned' if learn else ''}: {ok}; max diff {(got - want).abs().max().item():.3e}",
                "entry": {"module": "contracts.C12_gaussian_likelihoods", "function": "replay_fixed_entry", "args": [model, list(params), clause, info]}}
    except Exception as e:
        return {"violates": True, "detail": f"raised {type(e).__name__}: {e}"}
