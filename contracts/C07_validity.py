"""C07 -- every covariance handed out is a valid covariance: the clauses a contract can state (proof tier).

Positive semi-definiteness of kernel Gram matrices is a theorem of analysis about the VALUES (Bochner), not a postcondition a solver can
discharge from the code: that clause is checked in the bounded tier only.  For the posterior and variational covariances the argument is split:
C01 / C14 prove that the code computes the closed forms (Schur-complement terms, solves as callee contracts), and the Lean 4 / Mathlib lemmas of
lean/Psd.lean (re-checked by `lean` on every run) show that those closed forms are PSD over the reals whenever the joint prior covariance is PSD,
the noise / variational covariance is PSD and the solved matrix is positive definite -- that prior minus posterior is PSD, and (lean/Mono.lean)
that the posterior covariance can only decrease in the PSD order when observations are added.  Rounding is not
covered by the lemmas (bounded tier).  What is proved here, for all inputs:
  * reported variances are the covariance diagonal clamped at settings.min_variance, hence >= the configured minimum, stddev is its
    non-negative square root, confidence_region is mean -+ 2 stddev (the C10 contract on MultivariateNormal.{variance, stddev, confidence_region});
  * the noise a likelihood adds is >= its constraint's lower bound: every noise-like parameter registered with a constraint reads as
    constraint.transform(raw), which lies inside the closed interval [lower, upper] for ALL raw values (the C17 site contract, instantiated on
    the noise sites: HomoskedasticNoise / MultitaskHomoskedasticNoise raw_noise, the multitask likelihoods' raw_noise / raw_task_noises,
    Laplace / Student-t raw_noise);
  * the marginal of a Gaussian likelihood adds that noise to the diagonal (C12 contract), so marginal variance >= latent variance + lower bound.
"""
from __future__ import annotations

from engine.runner import case
from contracts import C10_mvn as c10
from contracts import C12_gaussian_likelihoods as c12
from contracts import C17_constraints as c17


@case("C07", clause="variance_floor", expand=lambda ix: [(0,), (1,)], replay=lambda *a: c10.replay_simple(*a),
      functions=[c10.F("variance"), c10.F("stddev"), c10.F("confidence_region")])
def variance_floor(c, br):
    return c10.moments(c, br)


def noise_sites(index):
    return [s for s in c17.site_cases(index) if "noise" in s[2].lower() or "noise" in s[1].lower() or "likelihood" in s[0]]


@case("C07", clause="noise_lower_bound", expand=noise_sites, replay=lambda *a: c17.replay_site(*a), timeout=180,
      functions=["gpytorch.constraints.constraints.Interval.transform", "gpytorch.likelihoods.noise_models._HomoskedasticNoiseBase.noise"])
def noise_lower_bound(c, modname, cname, raw, kind):
    return c17.site(c, modname, cname, raw, kind)


@case("C07", clause="marginal_adds_noise", expand=lambda ix: c12.batch_patterns(), replay=lambda *a: c12.replay_lik(*a),
      functions=["gpytorch.likelihoods.gaussian_likelihood._GaussianLikelihoodBase.marginal"])
def marginal_adds_noise(c, nb, db):
    return c12.marginal_homoskedastic(c, nb, db)


import z3  # noqa: E402

from engine import dom_elem as E  # noqa: E402
from engine.dom_elem import ivar, sym_tensor  # noqa: E402
from engine.values import FALSE, NONE, TRUE, VDict, VList, VNum, VObj, VTuple  # noqa: E402
from contracts.stubs import Stub  # noqa: E402


@case("C07", clause="noise_lower_bound", name="heteroskedastic_noise", expand=lambda ix: [(idx,) for idx in (False, True)], replay=lambda *a: replay_hetero(*a),
      functions=["gpytorch.likelihoods.noise_models.HeteroskedasticNoise.forward"])
def heteroskedastic_noise(c, with_indices):
    """the heteroskedastic noise is the CONSTRAINED posterior mean of the noise model -- diag[i] = constraint.transform(mean[..., idx[i]]) (all of
    the mean without noise_indices) -- hence >= the constraint's lower bound (C17: transform maps into [lower, upper]); the noise model is put
    back into the mode it was in"""
    it, ctx = c.it, c.ctx
    n, t = c.size("n"), c.size("t")
    M = sym_tensor("noise_model_mean", [n.t, t.t])
    out = Stub("noise_model_output", attrs={"mean": M}, isa=("MultivariateNormal",))
    modes = []
    nm = Stub("noise_model", attrs={"training": TRUE}, methods={"eval": lambda: (modes.append("eval"), nm)[1], "train": lambda m=TRUE: (modes.append(("train", m)), nm)[1],
                                                               "__call__": lambda *a, **k: (modes.append("call"), out)[1]}, isa=("Module",))
    TR = z3.Function("constraint_transform", z3.RealSort(), z3.RealSort())
    cons = Stub("noise_constraint", methods={"transform": lambda x: E.pointwise(ctx, [x], lambda v: TR(E.to_real(v)), sort="real")})
    ci = it.index.get_class("gpytorch.likelihoods.noise_models.HeteroskedasticNoise")
    o = VObj(ci, label="HeteroskedasticNoise")
    k_ = c.size("k")
    idx = sym_tensor("noise_indices", [k_.t], sort="int")
    o.fields.update({"_parameters": VDict(), "_buffers": VDict(), "_modules": VDict({"noise_model": nm}), "_priors": VDict(), "_constraints": VDict(), "_added_loss_terms": VDict(),
                     "training": TRUE, "_noise_constraint": cons, "_noise_indices": idx if with_indices else NONE})
    x = sym_tensor("x", [n.t, c.size("d").t])
    res = it.call(ctx, c.getattr(o, "forward"), [x], {})
    i, a, b_ = ivar("i"), ivar("a"), ivar("b")
    w = k_.t if with_indices else t.t
    c.assume(z3.And(i >= 0, i < n.t, a >= 0, a < w, b_ >= 0, b_ < w))
    ok = hasattr(res, "dims") and len(res.dims) == 3
    c.prove("hetero.is_a_batch_of_diagonal_matrices", z3.And(z3.BoolVal(ok), res.dims[0].size == n.t, res.dims[1].size == w, res.dims[2].size == w) if ok else z3.BoolVal(False))
    if ok:
        if with_indices:
            col = idx.at([a])
            c.assume(z3.And(col >= 0, col < t.t))
        else:
            col = a
        c.prove("hetero.diagonal_is_the_constrained_noise_model_mean", res.at_dims([i, a, b_]) == z3.If(a == b_, TR(M.at([i, col])), z3.RealVal(0)))
    c.prove("hetero.noise_model_evaluated_in_eval_mode_and_restored", z3.BoolVal(modes[:2] == ["eval", "call"] and len(modes) == 3 and modes[2][0] == "train" and modes[2][1] is TRUE))


def replay_hetero(model, params, clause, info):
    import torch
    import gpytorch
    (with_indices,) = params
    torch.manual_seed(0)

    class NoiseModel(gpytorch.models.ExactGP):
        def __init__(self, x, y):
            super().__init__(x, y, gpytorch.likelihoods.MultitaskGaussianLikelihood(num_tasks=2))
            self.mean_module = gpytorch.means.MultitaskMean(gpytorch.means.ConstantMean(), num_tasks=2)
            self.covar_module = gpytorch.kernels.MultitaskKernel(gpytorch.kernels.RBFKernel(), num_tasks=2, rank=1)

        def forward(self, x):
            return gpytorch.distributions.MultitaskMultivariateNormal(self.mean_module(x), self.covar_module(x))

    x = torch.rand(5, 1, dtype=torch.double)
    nm = NoiseModel(x, -3.0 + torch.randn(5, 2, dtype=torch.double)).double()  # strongly negative latent noise
    lower = 0.05
    hn = gpytorch.likelihoods.noise_models.HeteroskedasticNoise(nm, noise_indices=[1] if with_indices else None, noise_constraint=gpytorch.constraints.GreaterThan(lower))
    with torch.no_grad():
        d = hn(x + 0.01).diagonal(dim1=-1, dim2=-2) if hasattr(hn(x + 0.01), "diagonal") else None
    bad = d is None or not bool((d >= lower - 1e-12).all())
    return {"violates": bool(bad), "detail": f"HeteroskedasticNoise(noise_indices={'[1]' if with_indices else None}) with GreaterThan({lower}): smallest noise {None if d is None else d.min().item():.4g}",
            "entry": {"module": "contracts.C07_validity", "function": "replay_hetero", "args": [model, list(params), clause, info]}}



@case("C07", clause="psd_of_closed_forms", name="psd_lemmas", expand=lambda ix: [()], replay=None, timeout=1500,
      functions=["gpytorch.models.exact_prediction_strategies.DefaultPredictionStrategy.exact_predictive_covar", "gpytorch.variational.variational_strategy.VariationalStrategy.forward",
                 "gpytorch.variational.unwhitened_variational_strategy.UnwhitenedVariationalStrategy.forward"])
def psd_lemmas(c):
    """lemmas over the contracts of C01 / C14 (Lean 4 / Mathlib, lean/Psd.lean), all over real matrices with [Kxx Kxs; Kxs^T Kss] the joint prior covariance:
      posterior_psd              joint PSD, noise N PSD, A = Kxx + N positive definite  =>  Kss - Kxs^T A^-1 Kxs is PSD          (C01 predictive_covar's closed form)
      prior_minus_posterior_psd  A positive definite  =>  Kss - (Kss - Kxs^T A^-1 Kxs) is PSD                                     (conditioning never adds uncertainty)
      variational_psd            joint PSD, S PSD, Kzz positive definite  =>  Kxx - Kxz Kzz^-1 Kzx + (Kzz^-1 Kzx)^T S (Kzz^-1 Kzx) is PSD   (C14 unwhitened_forward's closed form)
      more_data_less_variance    (lean/Mono.lean) three-block joint covariance over (old data, added data, test points) PSD, both solved matrices positive definite
                                 =>  posterior covariance given the old data MINUS posterior covariance given old + added data is PSD     (adding observations never increases a variance)
      whitened_psd               the same with L L^T = Kzz and A = L^-1 Kzx:  Kxx + A^T (S~ - I) A is PSD                         (C14 whitened_forward's closed form; the jitter the code
                                                                                                                                    adds to Kzz and Kxx keeps the joint PSD)"""
    c.ctx.assumptions.add("Lean 4.33 kernel and Mathlib are trusted for lean/Psd.lean; the lemmas are over real matrices (rounding is covered by the bounded tier only); "
                          "PSD of the joint prior covariance itself (kernel validity) is a hypothesis of the lemmas, checked in the bounded tier")
    for th in ("posterior_psd", "prior_minus_posterior_psd", "variational_psd", "whitened_psd"):
        c.prove_lemma(f"psd.{th}", "Psd.lean", th)
    c.prove_lemma("psd.more_data_less_variance", "Mono.lean", "more_data_less_variance")
