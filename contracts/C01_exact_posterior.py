"""C01 -- exact GP posterior equals the closed-form Gaussian conditional (assembly; proof tier).

Functions under contract (real AST): models.exact_gp.ExactGP.__call__ (evaluation mode), models.exact_prediction_strategies.
DefaultPredictionStrategy.{__init__, exact_prediction, exact_predictive_mean, _mean_cache, exact_predictive_covar}.

The linear solves are dependency code: `A.solve(R)` is the callee contract  A @ SOLVE(A, R) = R  (exact; CG / Cholesky are its
implementations, compared numerically in the bounded tier).  With that contract the obligations below ARE the closed form of the property:
  joint prior at [X; X*] is split as  m* = mu[n:],  K** = Sigma[n:, n:],  K*x = Sigma[n:, :n]              (exact_prediction, both size branches)
  mean_cache = SOLVE(A, y - m_x)  with A the covariance of likelihood(train prior) = Kxx + S (C12)           (_mean_cache, policy 'ignore')
  mean = m* + K*x mean_cache                                                                                 (exact_predictive_mean)
  covariance = K** - K*x SOLVE(A', Kx*) with A' the covariance of likelihood(N(0, Kxx))                        (exact_predictive_covar, fast_pred_var off)
  skip_posterior_variances: a zero operator of the size of K**
ExactGP.__call__ builds the strategy once from forward(train inputs), evaluates forward on cat([train, test]) and returns the joint's class of
(mean, covariance) from exact_prediction.
"""
from __future__ import annotations

import z3

from engine import dom_elem as E
from engine.dom_elem import Dim, VTensor, ivar, mk_sum, sym_tensor
from engine.runner import case
from engine.values import FALSE, NONE, TRUE, VBool, VBuiltin, VDict, VList, VNum, VObj, VStr, VTuple
from contracts.C15_objectives import module_obj
from contracts.dist_spec import make_mvn, size_tuple
from contracts.stubs import Stub

PS = "gpytorch.models.exact_prediction_strategies.DefaultPredictionStrategy"
EG = "gpytorch.models.exact_gp.ExactGP"


def strategy(c, n, **fields):
    ci = c.it.index.get_class(PS)
    o = VObj(ci, label="DefaultPredictionStrategy")
    o.fields.update({"_train_shape": size_tuple([n]), "_last_test_train_covar": NONE})
    o.fields.update(fields)
    return o


def setting(c, name, field, v):
    c.ctx.classattrs[(f"gpytorch.settings.{name}", field)] = v


@case("C01", clause="split_joint", expand=lambda ix: [(br, eager) for br in (0, 1) for eager in (True, False)], replay=lambda *a: replay_c01(*a), functions=[f"{PS}.exact_prediction"])
def split_joint(c, br, eager):
    it, ctx = c.it, c.ctx
    n, s, B = c.size("n"), c.size("s"), c.size("B")
    c.assume(s.t >= 1)
    bs = [B.t] if br else []
    N = n.t + s.t
    jm = sym_tensor("joint_mean", bs + [N])
    jc = sym_tensor("joint_covar", bs + [N, N], is_linop=True)
    o = strategy(c, n.t)
    thr = c.int("max_eager_kernel_size")
    setting(c, "max_eager_kernel_size", "_global_value", thr)
    c.assume((N <= thr.t) if eager else (N > thr.t))
    seen = {}

    def hook(it_, ctx_, fi, args, kwargs):
        if not isinstance(fi, tuple) and args and args[0] is o and fi.name in ("exact_predictive_mean", "exact_predictive_covar"):
            seen[fi.name] = list(args[1:])
            return VStr(fi.name)
        return NotImplemented

    it.call_hooks.append(hook)
    res = it.call(ctx, c.getattr(o, "exact_prediction"), [jm, jc], {})
    ok = set(seen) == {"exact_predictive_mean", "exact_predictive_covar"} and isinstance(res, VTuple) and [getattr(x, "s", None) for x in res.items] == ["exact_predictive_mean", "exact_predictive_covar"]
    c.prove("split.returns_(mean, covar)_of_the_two_callees", z3.BoolVal(ok))
    if not ok:
        return
    tm, tt1 = seen["exact_predictive_mean"]
    tt, tt2 = seen["exact_predictive_covar"]
    b = [ivar("b") for _ in bs]
    i, j, k = ivar("i"), ivar("j"), ivar("k")
    for v, e in zip(b + [i, j, k], bs + [s.t, s.t, n.t]):
        c.assume(z3.And(v >= 0, v < e))
    c.prove("split.shapes", z3.And(z3.BoolVal(len(tm.dims) == br + 1 and len(tt.dims) == br + 2 and len(tt1.dims) == br + 2 and len(tt2.dims) == br + 2),
                                   tm.dims[-1].size == s.t, tt.dims[-2].size == s.t, tt.dims[-1].size == s.t, tt1.dims[-2].size == s.t, tt1.dims[-1].size == n.t,
                                   tt2.dims[-2].size == s.t, tt2.dims[-1].size == n.t))
    c.prove("split.test_mean", tm.at_dims(b + [i]) == jm.at(b + [n.t + i]))
    c.prove("split.test_test_covar", tt.at_dims(b + [i, j]) == jc.at(b + [n.t + i, n.t + j]))
    c.prove("split.test_train_covar_for_the_mean", tt1.at_dims(b + [i, k]) == jc.at(b + [n.t + i, k]))
    c.prove("split.test_train_covar_for_the_covariance", tt2.at_dims(b + [i, k]) == jc.at(b + [n.t + i, k]))


@case("C01", clause="predictive_mean", expand=lambda ix: [(br,) for br in (0, 1)], replay=lambda *a: replay_c01(*a), functions=[f"{PS}.exact_predictive_mean"])
def predictive_mean(c, br):
    it, ctx = c.it, c.ctx
    n, s, B = c.size("n"), c.size("s"), c.size("B")
    bs = [B.t] if br else []
    o = strategy(c, n.t)
    cache = sym_tensor("mean_cache", bs + [n.t])
    it.attr_hooks.append(lambda it_, ctx_, obj, name: cache if (obj is o and name == "mean_cache") else None)
    setting(c, "observation_nan_policy", "_global_value", VStr("ignore"))
    tm = sym_tensor("test_mean", bs + [s.t])
    T = sym_tensor("test_train_covar", bs + [s.t, n.t], is_linop=True)
    res = it.call(ctx, c.getattr(o, "exact_predictive_mean"), [tm, T], {})
    b = [ivar("b") for _ in bs]
    i = ivar("i")
    for v, e in zip(b + [i], bs + [s.t]):
        c.assume(z3.And(v >= 0, v < e))
    c.prove("mean.shape", z3.And(z3.BoolVal(len(res.dims) == br + 1), res.dims[-1].size == s.t) if len(res.dims) == br + 1 else z3.BoolVal(False))
    c.prove("mean.is_test_mean_plus_Ktx_times_mean_cache", res.at_dims(b + [i]) == tm.at(b + [i]) + mk_sum(lambda k: T.at(b + [i, k]) * cache.at(b + [k]), n.t))


class SolveLinop(Stub):
    """a linear operator given by its contract: evaluate_kernel() is the same operator, solve(R) = SOLVE(A, R) (recorded)"""

    def __init__(self, name, sol):
        super().__init__(name, isa=("LinearOperator",))
        self.solves = []
        self.methods["evaluate_kernel"] = lambda: self
        self.methods["detach"] = lambda: self
        self.methods["solve"] = lambda r: (self.solves.append(r), sol)[1]


@case("C01", clause="mean_cache", expand=lambda ix: [(br, detach) for br in (0, 1) for detach in (True, False)], replay=lambda *a: replay_c01(*a), functions=[f"{PS}._mean_cache", f"{PS}.__init__"])
def mean_cache(c, br, detach):
    """mean_cache = SOLVE(covariance of likelihood(train prior, train inputs), y - prior mean); the strategy stores labels / prior / likelihood as given"""
    it, ctx = c.it, c.ctx
    n, B = c.size("n"), c.size("B")
    bs = [B.t] if br else []
    prior = make_mvn(c, "train_prior", bs, n.t)
    y = sym_tensor("y", bs + [n.t])
    M = sym_tensor("marginal_mean", bs + [n.t])
    SOL = sym_tensor("SOLVE", bs + [n.t, z3.IntVal(1)])
    A = SolveLinop("A = cov(likelihood(train prior))", SOL)
    marg = Stub("likelihood(train_prior)", attrs={"loc": M, "mean": M, "lazy_covariance_matrix": A}, isa=("MultivariateNormal",))
    calls = []
    lik = Stub("likelihood", methods={"__call__": lambda *a, **k: (calls.append(list(a)), marg)[1]}, isa=("Likelihood",))
    train_inputs = VList([sym_tensor("X", bs + [n.t, c.size("d").t])])
    ci = it.index.get_class(PS)
    o = it.call(ctx, VClassOf(c, PS), [train_inputs, prior, y, lik], {})
    c.prove("init.stores_arguments", z3.BoolVal(o.fields.get("train_prior_dist") is prior and o.fields.get("likelihood") is lik and o.fields.get("train_inputs") is train_inputs
                                                 and o.fields.get("lik_train_train_covar") is A))
    yl = o.fields.get("train_labels")
    b = [ivar("b") for _ in bs]
    k = ivar("k")
    for v, e in zip(b + [k], bs + [n.t]):
        c.assume(z3.And(v >= 0, v < e))
    c.prove("init.labels_flattened_to_the_event_size", z3.And(z3.BoolVal(len(yl.dims) == br + 1), yl.dims[-1].size == n.t, yl.at_dims(b + [k]) == y.at(b + [k])) if hasattr(yl, "dims") and len(yl.dims) == br + 1 else z3.BoolVal(False))
    del calls[:]
    setting(c, "detach_test_caches", "_state", VBool(detach))
    res = it.call(ctx, c.getattr(o, "_mean_cache"), [VStr("ignore")], {})
    ok = len(calls) == 1 and calls[0][0] is prior and calls[0][1] is train_inputs and len(A.solves) == 1
    c.prove("mean_cache.one_marginal_of_the_train_prior_and_one_solve", z3.BoolVal(ok))
    if not ok:
        return
    rhs = A.solves[0]
    c.prove("mean_cache.rhs_is_labels_minus_marginal_mean", z3.And(z3.BoolVal(len(rhs.dims) == br + 2), rhs.dims[-1].size == 1, rhs.dims[-2].size == n.t,
                                                                     rhs.at_dims(b + [k, z3.IntVal(0)]) == y.at(b + [k]) - M.at(b + [k])) if len(rhs.dims) == br + 2 else z3.BoolVal(False))
    c.prove("mean_cache.is_the_solve", z3.And(z3.BoolVal(len(res.dims) == br + 1), res.at_dims(b + [k]) == SOL.at(b + [k, z3.IntVal(0)])) if len(res.dims) == br + 1 else z3.BoolVal(False))


def VClassOf(c, qual):
    return c.cls(qual)


@case("C01", clause="predictive_covar", expand=lambda ix: [(br, kind, detach) for br in (0, 1) for kind in ("tensor", "linop") for detach in (True, False)] + [(0, "skip", True)],
      replay=lambda *a: replay_c01(*a), functions=[f"{PS}.exact_predictive_covar"])
def predictive_covar(c, br, kind, detach):
    """fast_pred_var off:  K** - K*x SOLVE(cov(likelihood(N(0, Kxx), train inputs)), Kx*)"""
    it, ctx = c.it, c.ctx
    n, s, B = c.size("n"), c.size("s"), c.size("B")
    bs = [B.t] if br else []
    prior = make_mvn(c, "train_prior", bs, n.t)
    SOL = sym_tensor("SOLVE", bs + [n.t, s.t])
    A = SolveLinop("A' = cov(likelihood(N(0, Kxx)))", SOL)
    marg = Stub("likelihood(N(0,Kxx))", attrs={"lazy_covariance_matrix": A}, isa=("MultivariateNormal",))
    calls = []
    lik = Stub("likelihood", methods={"__call__": lambda *a, **k: (calls.append(list(a)), marg)[1]}, isa=("Likelihood",))
    train_inputs = VList([sym_tensor("X", bs + [n.t, c.size("d").t])])
    o = strategy(c, n.t, train_prior_dist=prior, likelihood=lik, train_inputs=train_inputs)
    setting(c, "fast_pred_var", "_state", FALSE)
    setting(c, "skip_posterior_variances", "_state", VBool(kind == "skip"))
    setting(c, "detach_test_caches", "_state", VBool(detach))
    TT = sym_tensor("test_test_covar", bs + [s.t, s.t], is_linop=(kind != "tensor"))
    T = sym_tensor("test_train_covar", bs + [s.t, n.t], is_linop=True)
    res = it.call(ctx, c.getattr(o, "exact_predictive_covar"), [TT, T], {})
    b = [ivar("b") for _ in bs]
    i, j, k = ivar("i"), ivar("j"), ivar("k")
    for v, e in zip(b + [i, j, k], bs + [s.t, s.t, n.t]):
        c.assume(z3.And(v >= 0, v < e))
    if kind == "skip":
        c.prove("covar.skip.zero_operator_of_the_test_size", z3.And(z3.BoolVal(len(res.dims) == 2), res.dims[0].size == s.t, res.dims[1].size == s.t, res.at_dims([i, j]) == 0) if hasattr(res, "dims") and len(res.dims) == 2 else z3.BoolVal(False))
        c.prove("covar.skip.no_solve", z3.BoolVal(len(A.solves) == 0))
        return
    ok = len(calls) == 1 and len(A.solves) == 1
    c.prove("covar.one_marginal_and_one_solve", z3.BoolVal(ok))
    if not ok:
        return
    d0 = calls[0][0]
    good = isinstance(d0, VObj) and d0.cls.name == "MultivariateNormal" and calls[0][1] is train_inputs
    c.prove("covar.marginal_of_a_zero_mean_prior_on_the_train_inputs", z3.BoolVal(good))
    if good:
        c.prove("covar.zero_mean_and_prior_covariance", z3.And(d0.fields["loc"].at_dims(b + [k]) == 0, z3.BoolVal(d0.fields["_covar"] is prior.fields["_covar"])))
    rhs = A.solves[0]
    c.prove("covar.rhs_is_Kxt", z3.And(z3.BoolVal(len(rhs.dims) == br + 2), rhs.dims[-2].size == n.t, rhs.dims[-1].size == s.t, rhs.at_dims(b + [k, j]) == T.at(b + [j, k])) if len(rhs.dims) == br + 2 else z3.BoolVal(False))
    c.prove("covar.shape", z3.And(z3.BoolVal(len(res.dims) == br + 2), res.dims[-2].size == s.t, res.dims[-1].size == s.t) if len(res.dims) == br + 2 else z3.BoolVal(False))
    if len(res.dims) == br + 2:
        c.prove("covar.is_Ktt_minus_Ktx_SOLVE", res.at_dims(b + [i, j]) == TT.at(b + [i, j]) - mk_sum(lambda q: T.at(b + [i, q]) * SOL.at(b + [q, j]), n.t))


@case("C01", clause="exact_gp_call", expand=lambda ix: [(first,) for first in (True, False)], replay=lambda *a: replay_c01(*a), functions=[f"{EG}.__call__"])
def exact_gp_call(c, first):
    """evaluation mode: the prediction strategy is built (once) from forward(train inputs), labels and likelihood; forward is evaluated on
    cat([train inputs, test inputs]) along the data dimension; the result is joint.__class__(mean reshaped to the test shape, covariance)"""
    it, ctx = c.it, c.ctx
    n, s, d = c.size("n"), c.size("s"), c.size("d")
    c.assume(z3.And(n.t >= 1, s.t >= 1))
    X, Xs = sym_tensor("X", [n.t, d.t]), sym_tensor("Xs", [s.t, d.t])
    y = sym_tensor("y", [n.t])
    lik = module_obj(c, "gpytorch.likelihoods.gaussian_likelihood.GaussianLikelihood", "likelihood")
    model = module_obj(c, EG, "model", train_inputs=VTuple([X]), _train_targets=y, training=FALSE)
    model.fields["_modules"].d["likelihood"] = lik
    train_out = make_mvn(c, "train_prior", [], n.t)
    joint = make_mvn(c, "joint", [], n.t + s.t)
    fwd, made, pred = [], [], []
    pm, pc = sym_tensor("predictive_mean", [s.t]), sym_tensor("predictive_covar", [s.t, s.t], is_linop=True)
    strat = Stub("strategy", attrs={"train_shape": size_tuple([n.t])}, methods={"exact_prediction": lambda m_, c_: (pred.append((m_, c_)), VTuple([pm, pc]))[1]})
    model.fields["prediction_strategy"] = NONE if first else strat

    def hook(it_, ctx_, fi, args, kwargs):
        if isinstance(fi, tuple):
            return NotImplemented
        if fi.name == "forward" and args and args[0] is model:
            fwd.append(list(args[1:]))
            return train_out if len(fwd) == 1 and first else joint
        if fi.qualname == "gpytorch.models.exact_prediction_strategies.prediction_strategy":
            made.append(dict(kwargs, _args=list(args)))
            return strat
        return NotImplemented

    it.call_hooks.append(hook)
    setting(c, "prior_mode", "_state", FALSE)
    setting(c, "debug", "_state", FALSE)
    res = it.call(ctx, c.getattr(model, "__call__"), [Xs], {})
    if first:
        ok = len(made) == 1 and len(fwd) == 2 and len(fwd[0]) == 1 and fwd[0][0] is X
        c.prove("call.strategy_built_once_from_forward(train inputs)", z3.BoolVal(ok and made[0].get("train_prior_dist") is train_out and made[0].get("train_labels") is y and made[0].get("likelihood") is lik))
    else:
        c.prove("call.existing_strategy_reused", z3.BoolVal(len(made) == 0 and len(fwd) == 1))
    full = fwd[-1][0] if fwd and fwd[-1] else None
    good = full is not None and hasattr(full, "dims") and len(full.dims) == 2
    c.prove("call.forward_on_the_stacked_inputs", z3.BoolVal(good and len(fwd[-1]) == 1))
    if good:
        i, k = ivar("i"), ivar("k")
        c.assume(z3.And(i >= 0, k >= 0, k < d.t))
        c.prove("call.stacked_inputs_are_[train; test]", z3.And(full.dims[0].size == n.t + s.t, full.dims[1].size == d.t, z3.Implies(i < n.t, full.at_dims([i, k]) == X.at([i, k])),
                                                                z3.Implies(i < s.t, full.at_dims([n.t + i, k]) == Xs.at([i, k]))))
    c.prove("call.exact_prediction_on_the_joint_mean_and_covariance", z3.BoolVal(len(pred) == 1 and pred[0][0] is joint.fields["loc"] and pred[0][1] is joint.fields["_covar"]))
    okr = isinstance(res, VObj) and res.cls.name == "MultivariateNormal"
    c.prove("call.returns_the_joints_class", z3.BoolVal(okr))
    if okr:
        j = ivar("j")
        c.assume(z3.And(j >= 0, j < s.t))
        rm = res.fields["loc"]
        c.prove("call.result_is_(predictive mean, predictive covariance)", z3.And(z3.BoolVal(len(rm.dims) == 1 and res.fields["_covar"] is pc), rm.dims[0].size == s.t, rm.at_dims([j]) == pm.at([j])))


def replay_c01(model, params, clause, info):
    try:
        from bounded import C01_conditionals as B
    except Exception as e:  # noqa: BLE001
        return {"violates": None, "detail": f"bounded tier for C01 not available: {e}"}
    r = B.run("quick", 0)
    import json
    import os
    import re
    kf = json.load(open(os.path.join(os.path.dirname(os.path.dirname(os.path.abspath(__file__))), "known_findings.json")))
    pats = [re.compile(f["match"]) for f in kf["findings"] if f["property"] == "C01"]
    bad = [v for v in r["violations"] if not any(p.fullmatch("bounded:" + v["key"]) for p in pats)]
    return {"violates": bool(bad), "detail": "; ".join(f"{v['key']}: {v['detail']}" for v in bad[:5])[:700] or "exact GP predictions agree with the dense conditional on the real code",
            "entry": {"module": "contracts.C01_exact_posterior", "function": "replay_c01", "args": [model, list(params), clause, info]}}


@case("C01", clause="predictive_covar_fast", expand=lambda ix: [(br, kind, detach) for br in (0, 1) for kind in ("tensor", "linop") for detach in (True, False)],
      replay=lambda *a: replay_c01(*a),
      functions=[f"{PS}.exact_predictive_covar", f"{PS}.covar_cache", f"{PS}._exact_predictive_covar_inv_quad_form_cache", f"{PS}._exact_predictive_covar_inv_quad_form_root"])
def predictive_covar_fast(c, br, kind, detach):
    """fast_pred_var on: with R the root the dependency returns for the inverse of the train covariance (callee contract: R R^T = (Kxx + S)^-1, exact at full
    rank), the covariance is K** - (K*x R)(K*x R)^T, and the strategy remembers the test-train block it was asked about"""
    it, ctx = c.it, c.ctx
    n, s, B, r = c.size("n"), c.size("s"), c.size("B"), c.size("r")
    bs = [B.t] if br else []
    R = sym_tensor("inverse_root", bs + [n.t, r.t])
    asked = []
    root_holder = Stub("root_inv_decomposition()", attrs={"root": R})
    A = Stub("lik_train_train_covar", methods={"root_inv_decomposition": lambda *a, **k: (asked.append(1), root_holder)[1]}, isa=("LinearOperator",))
    o = strategy(c, n.t, lik_train_train_covar=A)
    setting(c, "fast_pred_var", "_state", TRUE)
    setting(c, "skip_posterior_variances", "_state", FALSE)
    setting(c, "detach_test_caches", "_state", VBool(detach))
    TT = sym_tensor("test_test_covar", bs + [s.t, s.t], is_linop=(kind != "tensor"))
    T = sym_tensor("test_train_covar", bs + [s.t, n.t], is_linop=True)
    res = it.call(ctx, c.getattr(o, "exact_predictive_covar"), [TT, T], {})
    b = [ivar("b") for _ in bs]
    i, j = ivar("i"), ivar("j")
    for v, e in zip(b + [i, j], bs + [s.t, s.t]):
        c.assume(z3.And(v >= 0, v < e))
    c.prove("covar_fast.one_inverse_root_of_the_likelihood_train_covariance", z3.BoolVal(len(asked) == 1))
    c.prove("covar_fast.remembers_the_test_train_block", z3.BoolVal(o.fields.get("_last_test_train_covar") is T))
    c.prove("covar_fast.shape", z3.And(z3.BoolVal(len(res.dims) == br + 2), res.dims[-2].size == s.t, res.dims[-1].size == s.t) if len(res.dims) == br + 2 else z3.BoolVal(False))
    if len(res.dims) == br + 2:
        half = lambda row, p: mk_sum(lambda k: T.at(b + [row, k]) * R.at(b + [k, p]), n.t)  # noqa: E731
        c.prove("covar_fast.is_Ktt_minus_(Ktx R)(Ktx R)^T", res.at_dims(b + [i, j]) == TT.at(b + [i, j]) - mk_sum(lambda p: half(i, p) * half(j, p), r.t))


@case("C01", clause="set_train_data_invalidates", name="set_train_data", expand=lambda ix: [(gi, gt, strict) for gi in (True, False) for gt in (True, False) for strict in (True, False)],
      replay=lambda *a: replay_c01(*a), functions=["gpytorch.models.exact_gp.ExactGP.set_train_data"])
def set_train_data(c, give_inputs, give_targets, strict):
    """the posterior is the conditional on the CURRENT training data: replacing inputs and / or targets stores the new tensors and drops the prediction strategy
    (whose mean cache is a function of the targets, whose covariance caches are functions of the inputs) -- the C03 contract, shared"""
    from contracts import C03_caches as c03
    return c03.set_train_data(c, give_inputs, give_targets, strict)
