"""C19 -- hand-written derivatives are the true derivatives (scalar backward passes; proof tier).

Functions under contract (real AST): functions.rbf_covariance.RBFCovariance.{forward, backward},
functions.matern_covariance.MaternCovariance.{forward, backward} (nu = 1/2, 3/2, 5/2).

For every entry (b, i, j): the value returned by `forward` is the documented kernel value as a function of the lengthscale l,
and the tensor saved for `backward` -- followed through the chain of in-place operations in the alias-aware tensor domain --
equals d value / d l obtained by SYMBOLIC DIFFERENTIATION of that returned value; `backward` returns grad_output * saved in
the lengthscale slot and None elsewhere.  Hence fast path value == generic path value (C05) and the hyper-parameter gradient
delivered to the user is the derivative of the function actually computed, r = 0 included (polynomial * exp in r).

Callee contract of the distance function handed in by the kernel (proved for Kernel.covar_dist in C05): on inputs scaled by
1/l (single lengthscale) it returns (1/l)^2 * S resp. (1/l) * T with S, T >= 0 independent of l (positive homogeneity of the
Euclidean distance); that the arguments handed to it ARE the inputs scaled by 1/l is an obligation here.
"""
from __future__ import annotations

import z3

from engine import diff
from engine import dom_elem as E
from engine import dom_real
from engine.dom_elem import Dim, VTensor, ivar, sym_tensor
from engine.runner import case
from engine.values import FALSE, NONE, TRUE, VBool, VBuiltin, VNum, VTuple
from contracts.stubs import Stub

RBF = "gpytorch.functions.rbf_covariance.RBFCovariance"
MAT = "gpytorch.functions.matern_covariance.MaternCovariance"


def setup(c, br, needs_grad, squared):
    it, ctx = c.it, c.ctx
    n1, n2, d = c.size("n1"), c.size("n2"), c.size("d")
    bs = [c.size("b").t] if br else []
    x1 = sym_tensor("x1", bs + [n1.t, d.t])
    x2 = sym_tensor("x2", bs + [n2.t, d.t])
    ell = c.real("ell")
    c.assume(ell.t > 0)
    ls = E.full([Dim([e]) for e in bs] + [Dim([1]), Dim([1])], ell.t)  # a single lengthscale (the fast path's precondition)
    r = dom_real.recip(ctx, ell.t)
    core = z3.Function("S" if squared else "T", *([z3.IntSort()] * (len(bs) + 2) + [z3.RealSort()]))
    seen = {}

    def dist_func(a, b_):
        seen["args"] = (a, b_)

        def elem(idx):
            v = core(*idx)
            ctx.assume(v >= 0)
            return (r * r * v) if squared else (r * v)

        return VTensor([Dim([e]) for e in bs] + [Dim([n1.t]), Dim([n2.t])], elem, "real")

    fn = VBuiltin("dist_func", lambda it_, ctx_, a, k: dist_func(a[0], a[1]))
    saved = []
    cx = Stub("ctx", attrs={"needs_input_grad": VTuple([FALSE, FALSE, VBool(needs_grad), FALSE, FALSE])},
              methods={"save_for_backward": lambda *a: (saved.append(list(a)), NONE)[1]})
    b = [ivar("b") for _ in bs]
    for v, e in zip(b, bs):
        c.assume(z3.And(v >= 0, v < e))
    i, j, k = ivar("i"), ivar("j"), ivar("k")
    c.assume(z3.And(i >= 0, i < n1.t, j >= 0, j < n2.t, k >= 0, k < d.t))
    return dict(x1=x1, x2=x2, ls=ls, ell=ell.t, r=r, core=core, fn=fn, cx=cx, saved=saved, seen=seen, b=b, i=i, j=j, k=k, bs=bs, n1=n1.t, n2=n2.t, d=d.t)


def check_backward(c, qual, s, saved_tensor, nslots):
    it, ctx = c.it, c.ctx
    g = sym_tensor("grad_output", s["bs"] + [s["n1"], s["n2"]])
    bctx = Stub("ctx", attrs={"saved_tensors": VTuple([saved_tensor])})
    out = it.call(ctx, c.func(f"{qual}.backward"), [bctx, g], {})
    items = list(out.items)
    c.prove("backward.arity", z3.BoolVal(len(items) == nslots))
    c.prove("backward.none_elsewhere", z3.BoolVal(all(x is NONE for p, x in enumerate(items) if p != 2)))
    idx = s["b"] + [s["i"], s["j"]]
    c.prove("backward.lengthscale_grad", items[2].at(idx) == g.at(idx) * saved_tensor.at(idx))


@case("C19", clause="rbf", expand=lambda ix: [(br, ng) for br in (0, 1) for ng in (True, False)], replay=lambda *a: replay_grad(*a),
      functions=[f"{RBF}.forward", f"{RBF}.backward"])
def rbf(c, br, needs_grad):
    it, ctx = c.it, c.ctx
    s = setup(c, br, needs_grad, squared=True)
    res = it.call(ctx, c.func(f"{RBF}.forward"), [s["cx"], s["x1"], s["x2"], s["ls"], s["fn"]], {})
    idx = s["b"] + [s["i"], s["j"]]
    a, b_ = s["seen"]["args"]
    c.prove("rbf.distance_args_are_scaled_inputs", z3.And(a.at(s["b"] + [s["i"], s["k"]]) == s["x1"].at(s["b"] + [s["i"], s["k"]]) * s["r"],
                                                            b_.at(s["b"] + [s["j"], s["k"]]) == s["x2"].at(s["b"] + [s["j"], s["k"]]) * s["r"]))
    S = s["core"](*idx)
    value = dom_real.apply(ctx, "exp", -(s["r"] * s["r"] * S) / 2)
    got = res.at(idx)
    c.prove_identity("rbf.forward_value", got, value)
    if needs_grad:
        c.prove("rbf.saves_one_tensor", z3.BoolVal(len(s["saved"]) == 1 and len(s["saved"][0]) == 1))
        G = s["saved"][0][0]
        dv = diff.d(z3.simplify(got), s["ell"])
        c.prove("rbf.saved_is_derivative_of_returned_value", G.at(idx) == dv)
        check_backward(c, RBF, s, G, 4)
    else:
        c.prove("rbf.nothing_saved_without_grad", z3.BoolVal(len(s["saved"]) == 0))


@case("C19", clause="matern", expand=lambda ix: [(nu, br, ng) for nu in ("0.5", "1.5", "2.5") for br in (0, 1) for ng in (True, False)],
      replay=lambda *a: replay_grad(*a), functions=[f"{MAT}.forward", f"{MAT}.backward"])
def matern(c, nu, br, needs_grad):
    it, ctx = c.it, c.ctx
    s = setup(c, br, needs_grad, squared=False)
    res = it.call(ctx, c.func(f"{MAT}.forward"), [s["cx"], s["x1"], s["x2"], s["ls"], VNum(float(nu)), s["fn"]], {})
    idx = s["b"] + [s["i"], s["j"]]
    a, b_ = s["seen"]["args"]
    # the arguments are the mean-centred inputs scaled by 1/l (centring leaves differences unchanged)
    da = a.at(s["b"] + [s["i"], s["k"]]) - b_.at(s["b"] + [s["j"], s["k"]])
    c.prove("matern.distance_args_are_scaled_centred_inputs", da == (s["x1"].at(s["b"] + [s["i"], s["k"]]) - s["x2"].at(s["b"] + [s["j"], s["k"]])) * s["r"])
    T = s["core"](*idx)
    two_nu = {"0.5": 1, "1.5": 3, "2.5": 5}[nu]
    sq = dom_real.apply(ctx, "sqrt", z3.RealVal(two_nu))
    t = s["r"] * T * sq
    poly = {"0.5": z3.RealVal(1), "1.5": 1 + t, "2.5": 1 + t + t * t / 3}[nu]
    value = poly * dom_real.apply(ctx, "exp", -t)
    got = res.at(idx)
    c.prove_identity("matern.forward_value", got, value)
    if needs_grad:
        c.prove("matern.saves_one_tensor", z3.BoolVal(len(s["saved"]) == 1 and len(s["saved"][0]) == 1))
        G = s["saved"][0][0]
        dv = diff.d(z3.simplify(got), s["ell"])
        c.prove("matern.saved_is_derivative_of_returned_value", G.at(idx) == dv, nu=nu)
        check_backward(c, MAT, s, G, 5)
    else:
        c.prove("matern.nothing_saved_without_grad", z3.BoolVal(len(s["saved"]) == 0))


def replay_grad(model, params, clause, info):
    """real kernels: fast path vs generic path (value and lengthscale gradient, arbitrary upstream gradient), and vs central
    finite differences of the fast path's own forward; coincident points (r = 0) included"""
    import torch
    import gpytorch
    from gpytorch import kernels as K
    torch.manual_seed(0)
    detail, bad = [], False
    nus = [float(params[0])] if clause.startswith("matern") else [None]
    for nu in nus:
        for bs in ([], [2]):
            mk = (lambda: K.RBFKernel(batch_shape=torch.Size(bs)).double()) if nu is None else (lambda: K.MaternKernel(nu=nu, batch_shape=torch.Size(bs)).double())
            x1 = torch.randn(*bs, 4, 2, dtype=torch.double)
            x2 = torch.cat([x1[..., :2, :], torch.randn(*bs, 3, 2, dtype=torch.double)], -2)  # two coincident points
            up = torch.randn(*bs, 4, 5, dtype=torch.double)
            k = mk()
            with torch.no_grad():
                k.raw_lengthscale.copy_(torch.randn_like(k.raw_lengthscale))
            try:
                # fast path
                k.zero_grad()
                vf = k.forward(x1, x2)
                (vf * up).sum().backward()
                gf = k.raw_lengthscale.grad.clone()
                # generic path (inputs require grad)
                k.zero_grad()
                vg = k.forward(x1.clone().requires_grad_(True), x2)
                (vg * up).sum().backward()
                gg = k.raw_lengthscale.grad.clone()
                # finite differences of the fast path w.r.t. the raw lengthscale
                eps = 1e-6
                with torch.no_grad():
                    base = k.raw_lengthscale.clone()
                    fd = torch.zeros_like(base)
                    for bidx in range(base.numel()):
                        e = torch.zeros_like(base).view(-1)
                        e[bidx] = eps
                        k.raw_lengthscale.copy_(base + e.view_as(base))
                        fp = (k.forward(x1, x2) * up).sum()
                        k.raw_lengthscale.copy_(base - e.view_as(base))
                        fm = (k.forward(x1, x2) * up).sum()
                        fd.view(-1)[bidx] = (fp - fm) / (2 * eps)
                    k.raw_lengthscale.copy_(base)
                ok = torch.allclose(vf, vg, atol=1e-10) and torch.allclose(gf, gg, atol=1e-8) and torch.allclose(gf, fd, atol=1e-5)
                detail.append(f"nu={nu} batch={bs}: values agree {torch.allclose(vf, vg, atol=1e-10)}, fast grad {gf.flatten().tolist()} generic {gg.flatten().tolist()} finite-diff {fd.flatten().tolist()}")
            except Exception as e:
                from engine.runner import classify_replay_exception
                r = classify_replay_exception(e)
                ok = not r.get("violates")
                detail.append(r["detail"][:300])
            bad |= not ok
    return {"violates": bad, "detail": "; ".join(detail),
            "entry": {"module": "contracts.C19_backward", "function": "replay_grad", "args": [model, list(params), clause, info]}}


# ------------------------------------------------------------------------------ log normal CDF -------------
LNC = "gpytorch.functions._log_normal_cdf.LogNormalCDF"


def _coeff_lists(index):
    """the literal coefficient lists c, r, q of LogNormalCDF.forward, read from the AST (mechanical extraction)"""
    import ast
    fi = index.get_function(f"{LNC}.forward")
    out = {}
    for st in ast.walk(fi.node):
        if isinstance(st, ast.Assign) and isinstance(st.targets[0], ast.Name) and st.targets[0].id in ("c", "r", "q") \
                and isinstance(st.value, ast.Call) and st.value.args and isinstance(st.value.args[0], ast.List):
            out[st.targets[0].id] = st.value.args[0].elts
    return out


def lognormcdf_spec(c, z):
    """the three-branch definition (structure from the function's docstring/comments; coefficient values from its literals):
    |z| < 0.2  : -2 f - log 2,  f = Horner recurrence f <- l (c_i + f), l = -z / sqrt(2 pi)
    z < -1     : log(e / 2) - z^2 / 2,  e = num / den,  num <- -z num / sqrt 2 + r_i (from 0.5641895835477550741), den <- -z den / sqrt 2 + q_i (from 1)
    otherwise  : log Phi(z)"""
    from engine.symexec import Env
    it, ctx = c.it, c.ctx
    co = _coeff_lists(it.index)
    mod = it.index.get_module("gpytorch.functions._log_normal_cdf")
    ev = lambda node: it.eval(ctx, node, Env(module=mod)).real()
    sqrt2pi = dom_real.apply(ctx, "sqrt", 2 * dom_real.pi(ctx))
    sqrt2 = dom_real.apply(ctx, "sqrt", z3.RealVal(2))
    l = dom_real.rdiv(ctx, -z, sqrt2pi)
    f = z3.RealVal(0)
    for node in co["c"]:
        f = l * (ev(node) + f)
    near = -2 * f - dom_real.apply(ctx, "log", z3.RealVal(2))
    num, den = z3.RealVal(repr(0.5641895835477550741)), z3.RealVal(1)  # (a source literal denotes its nearest double)
    for node in co["r"]:
        num = -(z * dom_real.rdiv(ctx, num, sqrt2)) + ev(node)
    for node in co["q"]:
        den = -(z * dom_real.rdiv(ctx, den, sqrt2)) + ev(node)
    e = dom_real.rdiv(ctx, num, den)
    small = dom_real.apply(ctx, "log", e / 2) - z * z / 2
    ordinary = dom_real.apply(ctx, "log", dom_real.apply(ctx, "Phi", z))
    is_near, is_small = z * z < z3.RealVal("0.04"), z < -1
    return z3.If(is_near, near, z3.If(is_small, small, ordinary)), (is_near, is_small, num, den)


@case("C19", clause="log_normal_cdf", expand=lambda ix: [(1,)], replay=lambda *a: replay_lncdf(*a), timeout=600, tier="thorough",
      name="log_normal_cdf_vector", functions=[f"{LNC}.forward", f"{LNC}.backward"])
def log_normal_cdf_vector(c, rank):
    """the same contract on a vector of symbolic length (mask / count logic of the three branches); slow: thorough tier"""
    return log_normal_cdf(c, rank)


@case("C19", clause="log_normal_cdf", expand=lambda ix: [(0,)], replay=lambda *a: replay_lncdf(*a), timeout=300,
      functions=[f"{LNC}.forward", f"{LNC}.backward"])
def log_normal_cdf(c, rank):
    """forward: the three masks partition the reals and each entry gets its branch's expression; backward: grad_output times
    sqrt(2/pi) |den/num| on the z < -1 branch and sqrt(2/pi) exp(-z^2/2 - forward(z) + log 1/2) elsewhere (= phi(z) / Phi^(z) for the
    Phi^ the forward computed), the same on every call (backward does not disturb what forward stored)"""
    it, ctx = c.it, c.ctx
    n = c.size("n")
    shape = [n.t] if rank else []
    z = sym_tensor("z", shape)
    stored = {}
    saved = []
    cx = Stub("ctx", attrs={}, methods={"save_for_backward": lambda *a: (saved.append(list(a)), NONE)[1]})
    res = it.call(ctx, c.func(f"{LNC}.forward"), [cx, z], {})
    idx = [ivar("i")] if rank else []
    for v in idx:
        c.assume(z3.And(v >= 0, v < n.t))
    zi = z.at(idx)
    spec, (is_near, is_small, num, den) = lognormcdf_spec(c, zi)
    c.prove("lncdf.masks_partition", z3.Not(z3.And(is_near, is_small)))
    c.instantiate_facts([idx])
    got = res.at(idx)
    c.prove("lncdf.forward_branches", got == spec)
    c.prove("lncdf.saves_input_and_output", z3.BoolVal(len(saved) == 1 and len(saved[0]) == 2 and saved[0][0] is z))
    # backward, twice on the same ctx (row-by-row Jacobians / retain_graph back-propagate the same graph repeatedly)
    fwd_out = saved[0][1] if saved and len(saved[0]) == 2 else res
    cx.attrs["saved_tensors"] = VTuple([z, fwd_out])
    g1, g2 = sym_tensor("grad1", shape), sym_tensor("grad2", shape)
    sqrt_2_over_pi = dom_real.apply(ctx, "sqrt", 2 / dom_real.pi(ctx))
    ratio = dom_real.rdiv(ctx, den, num)
    want_unit = z3.If(is_small, z3.If(ratio >= 0, ratio, -ratio) * sqrt_2_over_pi,
                      dom_real.apply(ctx, "exp", -(zi * zi) / 2 - spec + dom_real.apply(ctx, "log", z3.RealVal("0.5"))) * sqrt_2_over_pi)
    for rnd, g in ((1, g1), (2, g2)):
        out = it.call(ctx, c.func(f"{LNC}.backward"), [cx, g], {})
        c.instantiate_facts([idx])
        c.prove(f"lncdf.backward[call {rnd}]", out.at(idx) == want_unit * g.at(idx))


def replay_lncdf(model, params, clause, info):
    import math
    import torch
    from gpytorch.functions import log_normal_cdf
    z = torch.tensor([-30.0, -8.0, -2.5, -1.0001, -0.9, -0.19, 0.0, 0.1, 0.21, 1.0, 4.0], dtype=torch.double, requires_grad=True)
    out = log_normal_cdf(z)
    ref = torch.special.log_ndtr(z.detach())
    ok = bool(((out.detach() - ref).abs() < 2e-3).all())
    detail = [f"forward max abs err vs log_ndtr {(out.detach() - ref).abs().max().item():.2e}"]
    # back-propagate the same graph three times (row-by-row): the gradient must be the same each time
    grads = []
    for _ in range(3):
        (g,) = torch.autograd.grad(out, z, torch.ones_like(out), retain_graph=True)
        grads.append(g)
    same = all(torch.equal(grads[0], g) for g in grads[1:])
    zz = z.detach()
    true = torch.exp(-zz ** 2 / 2 - ref) / math.sqrt(2 * math.pi)
    rel = ((grads[0] - true).abs() / true).max().item()
    detail.append(f"gradient identical over repeated backward calls: {same}; max rel err vs phi/Phi {rel:.2e}")
    ok = ok and same and rel < 2e-3
    return {"violates": not ok, "detail": "; ".join(detail),
            "entry": {"module": "contracts.C19_backward", "function": "replay_lncdf", "args": [model, list(params), clause, info]}}


# ------------------------------------------------------------------ natural parameterisations -------------------------
NAT = "gpytorch.variational.natural_variational_distribution"
TRN = "gpytorch.variational.tril_natural_variational_distribution"


def lit_matrix(bs, m, entry):
    """[*bs, m, m] tensor with literal extent m; entry(bidx, i, j) -> real term for literal i, j"""
    nb = len(bs)

    def elem(idx):
        b, i, j = list(idx[:nb]), idx[nb], idx[nb + 1]
        r = None
        for p in reversed(range(m)):
            for q in reversed(range(m)):
                e = entry(b, p, q)
                r = e if r is None else z3.If(z3.And(i == p, j == q), e, r)
        return r

    return VTensor([Dim([e]) for e in bs] + [Dim([m]), Dim([m])], elem, "real")


def lower_factor(c, name, bs, m):
    """a lower-triangular factor with positive diagonal (entries are arbitrary functions of the batch index) and its explicit
    inverse by forward substitution (polynomial in the entries and the reciprocals of the diagonal)"""
    ctx = c.ctx
    fs = {(p, q): z3.Function(f"{name}{p + 1}{q + 1}", *([z3.IntSort()] * len(bs) + [z3.RealSort()])) for p in range(m) for q in range(p + 1)}

    def ent(b, p, q):
        if q > p:
            return z3.RealVal(0)
        v = fs[(p, q)](*b) if bs else z3.Const(f"{name}{p + 1}{q + 1}", z3.RealSort())
        if p == q:
            ctx.assume(v > 0)
        return v

    def inv_ent(b, p, q):
        if q > p:
            return z3.RealVal(0)
        if p == q:
            return dom_real.recip(ctx, ent(b, p, p))
        # (L^-1)[p, q] = -(1/L[p,p]) * sum_{k=q}^{p-1} L[p,k] (L^-1)[k,q]
        s = z3.RealVal(0)
        for k in range(q, p):
            s = s + ent(b, p, k) * inv_ent(b, k, q)
        return z3.simplify(-dom_real.recip(ctx, ent(b, p, p)) * s)

    return lit_matrix(bs, m, ent), lit_matrix(bs, m, inv_ent), ent


def batch_setup(c, br):
    bs = [c.size(f"b{q}").t for q in range(br)]
    b = [ivar("b") for _ in bs]
    for v, e in zip(b, bs):
        c.assume(z3.And(v >= 0, v < e))
    return bs, b


@case("C19", clause="phi_for_cholesky", expand=lambda ix: [(0,), (1,), (2,)], replay=lambda *a: replay_natural(*a), functions=[f"{NAT}._phi_for_cholesky_"])
def phi_for_cholesky(c, br):
    """Phi(A): strictly lower triangle kept, diagonal halved, upper triangle zero -- per matrix of the batch, in place"""
    it, ctx = c.it, c.ctx
    bs, b = batch_setup(c, br)
    m = c.size("m")
    A = sym_tensor("A", bs + [m.t, m.t])
    A0 = A.meta["uf"]
    i, j = ivar("i"), ivar("j")
    c.assume(z3.And(i >= 0, i < m.t, j >= 0, j < m.t))
    r = it.call(ctx, c.func(f"{NAT}._phi_for_cholesky_"), [A], {})
    a0 = A0(*(b + [i, j]))
    c.prove("phi.elementwise", r.at(b + [i, j]) == z3.If(j < i, a0, z3.If(i == j, a0 / 2, 0)))
    c.prove("phi.shape_kept", z3.BoolVal(len(r.dims) == br + 2))
    c.prove("phi.extents_kept", z3.And(*[d.size == e for d, e in zip(r.dims, bs + [m.t, m.t])]))


@case("C19", clause="cholesky_backward", expand=lambda ix: [(m, br) for m in (1, 2, 3) for br in (0, 1)], replay=lambda *a: replay_natural(*a),
      functions=[f"{NAT}._cholesky_backward", f"{NAT}._phi_for_cholesky_"], timeout=600)
def cholesky_backward(c, m, br):
    """R = _cholesky_backward(G, L, L^-1) is THE gradient of f(chol(Sigma)) w.r.t. the symmetric Sigma = L L^T:  R is symmetric and
    for every lower-triangular tangent Ldot (the tangents of the Cholesky factor; Ldot -> Ldot L^T + L Ldot^T is onto the symmetric
    matrices)   <G, Ldot> = <R, Ldot L^T + L Ldot^T>.   Matrix size enumerated (m = 1, 2, 3), entries and batch symbolic."""
    it, ctx = c.it, c.ctx
    bs, b = batch_setup(c, br)
    L, C, lent = lower_factor(c, "l", bs, m)
    G = sym_tensor("G", bs + [z3.IntVal(m), z3.IntVal(m)])
    Gc = sym_tensor("G", bs + [z3.IntVal(m), z3.IntVal(m)])
    R = it.call(ctx, c.func(f"{NAT}._cholesky_backward"), [Gc, L, C], {})
    td = {(p, q): z3.Real(f"ldot{p + 1}{q + 1}") for p in range(m) for q in range(p + 1)}
    lhs = z3.RealVal(0)
    rhs = z3.RealVal(0)
    for p in range(m):
        for q in range(m):
            if q <= p:
                lhs = lhs + G.at(b + [z3.IntVal(p), z3.IntVal(q)]) * td[(p, q)]
            sd = z3.RealVal(0)  # (Ldot L^T + L Ldot^T)[p, q]
            for k in range(m):
                if k <= p and k <= q:
                    sd = sd + td[(p, k)] * lent(b, q, k) + lent(b, p, k) * td[(q, k)]
            rhs = rhs + R.at(b + [z3.IntVal(p), z3.IntVal(q)]) * sd
            if q < p:
                c.prove_identity(f"cholesky_backward.symmetric[{p},{q}]", R.at(b + [z3.IntVal(p), z3.IntVal(q)]), R.at(b + [z3.IntVal(q), z3.IntVal(p)]), cas_first=m >= 2)
    c.prove_identity("cholesky_backward.is_gradient_wrt_Sigma", lhs, rhs, cas_first=m >= 2)
    c.prove("cholesky_backward.upstream_gradient_not_modified", Gc.at(b + [z3.IntVal(0), z3.IntVal(0)]) == G.at(b + [z3.IntVal(0), z3.IntVal(0)]))


@case("C19", clause="natural_backward", expand=lambda ix: [(0,), (1,)], replay=lambda *a: replay_natural(*a),
      functions=[f"{NAT}._NaturalToMuVarSqrt._backward", f"{NAT}._NaturalToMuVarSqrt.backward"])
def natural_backward(c, br):
    """gradient w.r.t. the expectation parameters eta1 = mu, eta2 = mu mu^T + Sigma of f(mu, chol(Sigma)): with dSigma the
    (symmetric) gradient w.r.t. Sigma -- callee contract of _cholesky_backward, proved in `cholesky_backward` -- and
    Sigma = eta2 - eta1 eta1^T:   d/d eta2 = dSigma,   d/d eta1[i] = dmu[i] - sum_k dSigma[i,k] mu[k] - sum_k dSigma[k,i] mu[k]"""
    it, ctx = c.it, c.ctx
    bs, b = batch_setup(c, br)
    m = c.size("m")
    mu = sym_tensor("mu", bs + [m.t])
    L = sym_tensor("L", bs + [m.t, m.t])
    C = sym_tensor("Linv", bs + [m.t, m.t])
    dmu = sym_tensor("dout_dmu", bs + [m.t])
    dL = sym_tensor("dout_dL", bs + [m.t, m.t])
    dS = sym_tensor("dSigma", bs + [m.t, m.t], symmetric=True)
    calls = []

    def hook(it_, ctx_, finfo, args, kwargs):
        if finfo.qualname.endswith("._cholesky_backward"):
            calls.append(list(args))
            return dS
        if finfo.qualname.endswith("._triangular_inverse"):
            calls.append(("inv", list(args), dict(kwargs)))
            return C
        return NotImplemented

    it.call_hooks.append(hook)
    i, j = ivar("i"), ivar("j")
    c.assume(z3.And(i >= 0, i < m.t, j >= 0, j < m.t))
    out = it.call(ctx, c.func(f"{NAT}._NaturalToMuVarSqrt._backward"), [dmu, dL, mu, L, C], {})
    c.prove("natural._backward.calls_cholesky_backward_on(dout_dL, L, L^-1)", z3.BoolVal(len(calls) == 1 and calls[0][0] is dL and calls[0][1] is L and calls[0][2] is C))
    o1, o2 = out.items
    from engine.dom_elem import mk_sum
    # dSigma[k, i] = dSigma[i, k] (symmetric by construction of the symbolic tensor): both sums are the same sum
    want = dmu.at(b + [i]) - 2 * mk_sum(lambda k: dS.at(b + [i, k]) * mu.at(b + [k]), m.t)
    c.prove("natural._backward.d_eta1", o1.at(b + [i]) == want)
    c.prove("natural._backward.d_eta2", o2.at(b + [i, j]) == dS.at(b + [i, j]))
    # backward(ctx, ...) = _backward on the saved (mu, L) and L^-1
    del calls[:]
    bctx = Stub("ctx", attrs={"saved_tensors": VTuple([mu, L])})
    out2 = it.call(ctx, c.func(f"{NAT}._NaturalToMuVarSqrt.backward"), [bctx, dmu, dL], {})
    inv_calls = [x for x in calls if isinstance(x, tuple)]
    upper = inv_calls[0][2].get("upper", inv_calls[0][1][1] if len(inv_calls[0][1]) > 1 else FALSE) if inv_calls else None
    c.prove("natural.backward.inverts_saved_L_as_lower_triangular", z3.BoolVal(len(inv_calls) == 1 and inv_calls[0][1][0] is L and isinstance(upper, VBool) and z3.is_false(upper.t)))
    p1, p2 = out2.items
    c.prove("natural.backward.d_eta1", p1.at(b + [i]) == want)
    c.prove("natural.backward.d_eta2", p2.at(b + [i, j]) == dS.at(b + [i, j]))


@case("C19", clause="tril_natural_backward", expand=lambda ix: [(m, br) for m in (1, 2, 3) for br in (0, 1)], replay=lambda *a: replay_natural(*a),
      functions=[f"{TRN}._TrilNaturalToMuVarSqrt.backward", f"{NAT}._phi_for_cholesky_"], timeout=600)
def tril_natural_backward(c, m, br):
    """the direction delivered for the triangular parameter C (natural matrix Theta = -1/2 C^T C) is the push-forward of the natural-gradient
    direction dTheta:  for every lower-triangular tangent Cdot, feeding dTheta = -1/2 (Cdot^T C + C^T Cdot) yields exactly Cdot
    (C -> Theta is one-to-one from lower-triangular positive-diagonal factors onto the negative-definite matrices, so every symmetric
    dTheta arises this way).  d_eta1 is handed through from _NaturalToMuVarSqrt._backward.  Matrix size enumerated (m = 1, 2, 3)."""
    it, ctx = c.it, c.ctx
    bs, b = batch_setup(c, br)
    Cm, Lm, cent = lower_factor(c, "c", bs, m)  # C and L = C^-1
    mu = sym_tensor("mu", bs + [z3.IntVal(m)])
    dmu = sym_tensor("dout_dmu", bs + [z3.IntVal(m)])
    dL = sym_tensor("dout_dL", bs + [z3.IntVal(m), z3.IntVal(m)])
    dn1 = sym_tensor("dout_dnat1", bs + [z3.IntVal(m)])
    td = {(p, q): z3.Real(f"cdot{p + 1}{q + 1}") for p in range(m) for q in range(p + 1)}

    def dtheta(bidx, p, q):
        s = z3.RealVal(0)
        for k in range(m):
            if k >= p and k >= q:
                s = s + td[(k, p)] * cent(bidx, k, q) + cent(bidx, k, p) * td[(k, q)]
        return -s / 2

    dn2 = lit_matrix(bs, m, dtheta)
    calls = []

    def hook(it_, ctx_, finfo, args, kwargs):
        if finfo.qualname.endswith("_NaturalToMuVarSqrt._backward"):
            calls.append(list(args))
            return VTuple([dn1, dn2])
        return NotImplemented

    it.call_hooks.append(hook)
    bctx = Stub("ctx", attrs={"saved_tensors": VTuple([mu, Lm, Cm])})
    out = it.call(ctx, c.func(f"{TRN}._TrilNaturalToMuVarSqrt.backward"), [bctx, dmu, dL], {})
    c.prove("tril.backward.calls_natural_backward_on(dmu, dL, mu, L, C)",
            z3.BoolVal(len(calls) == 1 and len(calls[0]) == 5 and all(x is y for x, y in zip(calls[0], [dmu, dL, mu, Lm, Cm]))))
    o1, o2 = out.items
    c.prove("tril.backward.d_eta1_handed_through", o1.at(b + [z3.IntVal(0)]) == dn1.at(b + [z3.IntVal(0)]))
    for p in range(m):
        for q in range(m):
            c.prove_identity(f"tril.backward.pushforward[{p},{q}]", o2.at(b + [z3.IntVal(p), z3.IntVal(q)]), td[(p, q)] if q <= p else z3.RealVal(0), cas_first=m >= 2)


def replay_natural(model, params, clause, info):
    """real code: gradient delivered to the natural parameters vs autograd of the explicit expectation-parameter form"""
    from bounded import C19_numeric
    res = C19_numeric.run("quick", 0)
    bad = [v for v in res["violations"] if v["key"].startswith("natural_gradient")]
    return {"violates": bool(bad), "detail": "; ".join(f"{v['key']}: {v['detail']}" for v in bad)[:600] or "natural-gradient checks pass on the real code",
            "entry": {"module": "contracts.C19_backward", "function": "replay_natural", "args": [model, list(params), clause, info]}}
