"""C19 -- hand-written derivatives are the true derivatives (scalar backward passes; proof tier).

Functions under contract (real AST): functions.rbf_covariance.RBFCovariance.{forward, backward},
functions.matern_covariance.MaternCovariance.{forward, backward} (nu = 1/2, 3/2, 5/2).

For every entry (b, i, j): the value returned by `forward` is the documented kernel value as a function of the lengthscale l,
and the tensor saved for `backward` -- followed through the chain of in-place operations in the alias-aware tensor domain --
equals d value / d l obtained by SYMBOLIC DIFFERENTIATION of that returned value; `backward` returns grad_output * saved in
the lengthscale slot and None elsewhere.  Hence fast path value == generic path value (C05) and the hyper-parameter gradient
delivered to the user is the derivative of the function actually computed, r = 0 included (polynomial * exp in r).

Callee contract of the distance function handed in by the kernel (proved for Kernel.covar_dist in C05): on inputs scaled by
1/l (single lengthscale) it returns (1/l)^2 * S resp. (1/l) * T with S, T >= 0 independent of l (positive homogeneity of the
Euclidean distance); that the arguments handed to it ARE the inputs scaled by 1/l is an obligation here.
"""
from __future__ import annotations

import z3

from engine import diff
from engine import dom_elem as E
from engine import dom_real
from engine.dom_elem import Dim, VTensor, ivar, sym_tensor
from engine.runner import case
from engine.values import FALSE, NONE, TRUE, VBool, VBuiltin, VNum, VTuple
from contracts.stubs import Stub

RBF = "gpytorch.functions.rbf_covariance.RBFCovariance"
MAT = "gpytorch.functions.matern_covariance.MaternCovariance"


def setup(c, br, needs_grad, squared):
    it, ctx = c.it, c.ctx
    n1, n2, d = c.size("n1"), c.size("n2"), c.size("d")
    bs = [c.size("b").t] if br else []
    x1 = sym_tensor("x1", bs + [n1.t, d.t])
    x2 = sym_tensor("x2", bs + [n2.t, d.t])
    ell = c.real("ell")
    c.assume(ell.t > 0)
    ls = E.full([Dim([e]) for e in bs] + [Dim([1]), Dim([1])], ell.t)  # a single lengthscale (the fast path's precondition)
    r = dom_real.recip(ctx, ell.t)
    core = z3.Function("S" if squared else "T", *([z3.IntSort()] * (len(bs) + 2) + [z3.RealSort()]))
    seen = {}

    def dist_func(a, b_):
        seen["args"] = (a, b_)

        def elem(idx):
            v = core(*idx)
            ctx.assume(v >= 0)
            return (r * r * v) if squared else (r * v)

        return VTensor([Dim([e]) for e in bs] + [Dim([n1.t]), Dim([n2.t])], elem, "real")

    fn = VBuiltin("dist_func", lambda it_, ctx_, a, k: dist_func(a[0], a[1]))
    saved = []
    cx = Stub("ctx", attrs={"needs_input_grad": VTuple([FALSE, FALSE, VBool(needs_grad), FALSE, FALSE])},
              methods={"save_for_backward": lambda *a: (saved.append(list(a)), NONE)[1]})
    b = [ivar("b") for _ in bs]
    for v, e in zip(b, bs):
        c.assume(z3.And(v >= 0, v < e))
    i, j, k = ivar("i"), ivar("j"), ivar("k")
    c.assume(z3.And(i >= 0, i < n1.t, j >= 0, j < n2.t, k >= 0, k < d.t))
    return dict(x1=x1, x2=x2, ls=ls, ell=ell.t, r=r, core=core, fn=fn, cx=cx, saved=saved, seen=seen, b=b, i=i, j=j, k=k, bs=bs, n1=n1.t, n2=n2.t, d=d.t)


def check_backward(c, qual, s, saved_tensor, nslots):
    it, ctx = c.it, c.ctx
    g = sym_tensor("grad_output", s["bs"] + [s["n1"], s["n2"]])
    bctx = Stub("ctx", attrs={"saved_tensors": VTuple([saved_tensor])})
    out = it.call(ctx, c.func(f"{qual}.backward"), [bctx, g], {})
    items = list(out.items)
    c.prove("backward.arity", z3.BoolVal(len(items) == nslots))
    c.prove("backward.none_elsewhere", z3.BoolVal(all(x is NONE for p, x in enumerate(items) if p != 2)))
    idx = s["b"] + [s["i"], s["j"]]
    c.prove("backward.lengthscale_grad", items[2].at(idx) == g.at(idx) * saved_tensor.at(idx))


@case("C19", clause="rbf", expand=lambda ix: [(br, ng) for br in (0, 1) for ng in (True, False)], replay=lambda *a: replay_grad(*a),
      functions=[f"{RBF}.forward", f"{RBF}.backward"])
def rbf(c, br, needs_grad):
    it, ctx = c.it, c.ctx
    s = setup(c, br, needs_grad, squared=True)
    res = it.call(ctx, c.func(f"{RBF}.forward"), [s["cx"], s["x1"], s["x2"], s["ls"], s["fn"]], {})
    idx = s["b"] + [s["i"], s["j"]]
    a, b_ = s["seen"]["args"]
    c.prove("rbf.distance_args_are_scaled_inputs", z3.And(a.at(s["b"] + [s["i"], s["k"]]) == s["x1"].at(s["b"] + [s["i"], s["k"]]) * s["r"],
                                                            b_.at(s["b"] + [s["j"], s["k"]]) == s["x2"].at(s["b"] + [s["j"], s["k"]]) * s["r"]))
    S = s["core"](*idx)
    value = dom_real.apply(ctx, "exp", -(s["r"] * s["r"] * S) / 2)
    got = res.at(idx)
    c.prove_identity("rbf.forward_value", got, value)
    if needs_grad:
        c.prove("rbf.saves_one_tensor", z3.BoolVal(len(s["saved"]) == 1 and len(s["saved"][0]) == 1))
        G = s["saved"][0][0]
        dv = diff.d(z3.simplify(got), s["ell"])
        c.prove("rbf.saved_is_derivative_of_returned_value", G.at(idx) == dv)
        check_backward(c, RBF, s, G, 4)
    else:
        c.prove("rbf.nothing_saved_without_grad", z3.BoolVal(len(s["saved"]) == 0))


@case("C19", clause="matern", expand=lambda ix: [(nu, br, ng) for nu in ("0.5", "1.5", "2.5") for br in (0, 1) for ng in (True, False)],
      replay=lambda *a: replay_grad(*a), functions=[f"{MAT}.forward", f"{MAT}.backward"])
def matern(c, nu, br, needs_grad):
    it, ctx = c.it, c.ctx
    s = setup(c, br, needs_grad, squared=False)
    res = it.call(ctx, c.func(f"{MAT}.forward"), [s["cx"], s["x1"], s["x2"], s["ls"], VNum(float(nu)), s["fn"]], {})
    idx = s["b"] + [s["i"], s["j"]]
    a, b_ = s["seen"]["args"]
    # the arguments are the mean-centred inputs scaled by 1/l (centring leaves differences unchanged)
    da = a.at(s["b"] + [s["i"], s["k"]]) - b_.at(s["b"] + [s["j"], s["k"]])
    c.prove("matern.distance_args_are_scaled_centred_inputs", da == (s["x1"].at(s["b"] + [s["i"], s["k"]]) - s["x2"].at(s["b"] + [s["j"], s["k"]])) * s["r"])
    T = s["core"](*idx)
    two_nu = {"0.5": 1, "1.5": 3, "2.5": 5}[nu]
    sq = dom_real.apply(ctx, "sqrt", z3.RealVal(two_nu))
    t = s["r"] * T * sq
    poly = {"0.5": z3.RealVal(1), "1.5": 1 + t, "2.5": 1 + t + t * t / 3}[nu]
    value = poly * dom_real.apply(ctx, "exp", -t)
    got = res.at(idx)
    c.prove_identity("matern.forward_value", got, value)
    if needs_grad:
        c.prove("matern.saves_one_tensor", z3.BoolVal(len(s["saved"]) == 1 and len(s["saved"][0]) == 1))
        G = s["saved"][0][0]
        dv = diff.d(z3.simplify(got), s["ell"])
        c.prove("matern.saved_is_derivative_of_returned_value", G.at(idx) == dv, nu=nu)
        check_backward(c, MAT, s, G, 5)
    else:
        c.prove("matern.nothing_saved_without_grad", z3.BoolVal(len(s["saved"]) == 0))


def replay_grad(model, params, clause, info):
    """real kernels: fast path vs generic path (value and lengthscale gradient, arbitrary upstream gradient), and vs central
    finite differences of the fast path's own forward; coincident points (r = 0) included"""
    import torch
    import gpytorch
    from gpytorch import kernels as K
    torch.manual_seed(0)
    detail, bad = [], False
    nus = [float(params[0])] if clause.startswith("matern") else [None]
    for nu in nus:
        for bs in ([], [2]):
            mk = (lambda: K.RBFKernel(batch_shape=torch.Size(bs)).double()) if nu is None else (lambda: K.MaternKernel(nu=nu, batch_shape=torch.Size(bs)).double())
            x1 = torch.randn(*bs, 4, 2, dtype=torch.double)
            x2 = torch.cat([x1[..., :2, :], torch.randn(*bs, 3, 2, dtype=torch.double)], -2)  # two coincident points
            up = torch.randn(*bs, 4, 5, dtype=torch.double)
            k = mk()
            with torch.no_grad():
                k.raw_lengthscale.copy_(torch.randn_like(k.raw_lengthscale))
            try:
                # fast path
                k.zero_grad()
                vf = k.forward(x1, x2)
                (vf * up).sum().backward()
                gf = k.raw_lengthscale.grad.clone()
                # generic path (inputs require grad)
                k.zero_grad()
                vg = k.forward(x1.clone().requires_grad_(True), x2)
                (vg * up).sum().backward()
                gg = k.raw_lengthscale.grad.clone()
                # finite differences of the fast path w.r.t. the raw lengthscale
                eps = 1e-6
                with torch.no_grad():
                    base = k.raw_lengthscale.clone()
                    fd = torch.zeros_like(base)
                    for bidx in range(base.numel()):
                        e = torch.zeros_like(base).view(-1)
                        e[bidx] = eps
                        k.raw_lengthscale.copy_(base + e.view_as(base))
                        fp = (k.forward(x1, x2) * up).sum()
                        k.raw_lengthscale.copy_(base - e.view_as(base))
                        fm = (k.forward(x1, x2) * up).sum()
                        fd.view(-1)[bidx] = (fp - fm) / (2 * eps)
                    k.raw_lengthscale.copy_(base)
                ok = torch.allclose(vf, vg, atol=1e-10) and torch.allclose(gf, gg, atol=1e-8) and torch.allclose(gf, fd, atol=1e-5)
                detail.append(f"nu={nu} batch={bs}: values agree {torch.allclose(vf, vg, atol=1e-10)}, fast grad {gf.flatten().tolist()} generic {gg.flatten().tolist()} finite-diff {fd.flatten().tolist()}")
            except Exception as e:
                from engine.runner import classify_replay_exception
                r = classify_replay_exception(e)
                ok = not r.get("violates")
                detail.append(r["detail"][:300])
            bad |= not ok
    return {"violates": bad, "detail": "; ".join(detail),
            "entry": {"module": "contracts.C19_backward", "function": "replay_grad", "args": [model, list(params), clause, info]}}
