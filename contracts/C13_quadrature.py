"""C13 -- Gauss-Hermite quadrature and non-Gaussian likelihoods.

Functions under contract (real AST): utils.quadrature.{_pad_with_singletons, GaussHermiteQuadrature1D.forward},
likelihoods.likelihood._OneDimensionalLikelihood.{expected_log_prob, log_marginal},
BernoulliLikelihood.{forward, marginal, log_marginal, expected_log_prob}, LaplaceLikelihood.forward, StudentTLikelihood.forward,
BetaLikelihood.forward, functions._log_normal_cdf.LogNormalCDF.forward (the branch contract shared with C19).

1. quadrature.forward returns, per batch element,  (1/sqrt(pi)) * sum_k w_k F(sqrt(2 v) t_k + m)  for an arbitrary elementwise
   integrand F, any number Q of nodes and batch rank 0..2.
2. with the moment contract of numpy's hermgauss nodes (dependency; checked numerically for Q <= 64 in the bounded tier):
   sum_k w_k t_k^q = sqrt(pi) * (q-1)!!/2^(q/2) for even q, 0 for odd q (q < 2Q) -- the rule integrates the monomials x^p,
   p = 0..5 (< 2Q) exactly against N(m, v): the results are the Gaussian moments m, m^2+v, m^3+3mv, ...   (all m, v >= 0)
3. expected_log_prob / log_marginal hand the quadrature the integrand log p(y|f) resp. p(y|f) of the distribution `forward`
   builds, on the function distribution given; conditional distributions have the documented parameters.
4. Bernoulli marginal = Bernoulli(Phi(m / sqrt(1 + v))) (that this is the exact integral is the probit identity, cited).
"""
from __future__ import annotations

import z3

from engine import dom_elem as E
from engine import dom_real
from engine.dom_elem import Dim, VTensor, ivar, mk_sum, sym_tensor
from engine.optable_torch import VDistRecord
from engine.runner import case
from engine.values import FALSE, NONE, TRUE, VBool, VBuiltin, VDict, VNum, VObj, VTuple
from contracts.stubs import Stub

Q1 = "gpytorch.utils.quadrature"
LK = "gpytorch.likelihoods"


def module_obj(c, qual, props, **fields):
    it = c.it
    ci = it.index.get_class(qual)
    o = VObj(ci, label=ci.name)
    o.fields.update({"_parameters": VDict(), "_buffers": VDict(), "_modules": VDict(), "_priors": VDict(), "_constraints": VDict(),
                     "_added_loss_terms": VDict(), "training": TRUE})
    o.fields.update(fields)

    def hook(it_, ctx_, obj, name):
        if obj is o and name in props:
            return props[name]
        return None

    it.attr_hooks.append(hook)
    return o


def batch(c, rank):
    ext = [c.size(f"n{q}").t for q in range(rank)]
    idx = [ivar("i") for _ in ext]
    for v, e in zip(idx, ext):
        c.assume(z3.And(v >= 0, v < e))
    return ext, idx


def gaussian(c, ext):
    m = sym_tensor("mean", ext)
    v = sym_tensor("variance", ext)
    vf = v.meta["uf"]
    vc = z3.Real("variance")

    def velem(idx):
        t = vf(*idx) if vf is not None else vc
        c.ctx.assume(t >= 0)
        return t

    v.elem = velem
    return Stub("function_dist", attrs={"mean": m, "variance": v}, isa=("MultivariateNormal", "Normal", "Distribution")), m, v


def quad_obj(c):
    Q = c.size("Q")
    t = sym_tensor("loc", [Q.t])
    w = sym_tensor("wgt", [Q.t])
    o = module_obj(c, f"{Q1}.GaussHermiteQuadrature1D", {}, locations=t, weights=w, num_locs=Q)
    return o, Q.t, t, w


def elementwise(F):
    def f(it, ctx, a, k):
        x = a[0]
        return E.pointwise(ctx, [x], lambda v: F(E.to_real(v)), sort="real")
    return VBuiltin("integrand", f)


def inv_sqrt_pi(ctx):
    return dom_real.recip(ctx, dom_real.apply(ctx, "sqrt", dom_real.pi(ctx)))


@case("C13", clause="quadrature_rule", expand=lambda ix: [(0,), (1,), (2,)], replay=lambda *a: replay_quadrature(*a),
      functions=[f"{Q1}.GaussHermiteQuadrature1D.forward", f"{Q1}._pad_with_singletons"])
def quadrature_forward(c, rank):
    it, ctx = c.it, c.ctx
    ext, idx = batch(c, rank)
    dist, m, v = gaussian(c, ext)
    o, Q, t, w = quad_obj(c)
    F = z3.Function("F", z3.RealSort(), z3.RealSort())
    res = it.call(ctx, c.getattr(o, "forward"), [elementwise(F), dist], {})
    c.prove("quadrature.rank", z3.BoolVal(len(res.dims) == rank))
    for p, e in enumerate(ext):
        if p < len(res.dims):
            c.prove(f"quadrature.extent[{p}]", res.dims[p].size == e)
    s = dom_real.apply(ctx, "sqrt", 2 * v.at(idx))
    want = inv_sqrt_pi(ctx) * mk_sum(lambda k: F(s * t.at([k]) + m.at(idx)) * w.at([k]), Q)
    c.prove("quadrature.weighted_sum_over_nodes", res.at(idx) == want)


def replay_nodes(model, params, clause, info):
    """real module: the number of nodes under a non-default num_gauss_hermite_locs setting / an explicit argument"""
    import numpy as np
    import gpytorch
    from gpytorch.utils.quadrature import GaussHermiteQuadrature1D
    (given,) = params
    bad, detail = False, []
    for S in (7, 33):
        try:
            with gpytorch.settings.num_gauss_hermite_locs(S):
                q = GaussHermiteQuadrature1D(5) if given else GaussHermiteQuadrature1D()
                lik = gpytorch.likelihoods.LaplaceLikelihood()
            want = 5 if given else S
            t, w = np.polynomial.hermite.hermgauss(want)
            ok = q.num_locs == want and tuple(q.locations.shape) == (want,) and tuple(q.weights.shape) == (want,) \
                and np.allclose(q.locations.numpy(), t, atol=1e-6) and np.allclose(q.weights.numpy(), w, atol=1e-6)
            ok = ok and (given or tuple(lik.quadrature.locations.shape) == (S,))
            if not ok:
                bad = True
                detail.append(f"setting {S}, argument {'5' if given else 'None'}: num_locs={q.num_locs}, {tuple(q.locations.shape)} nodes; likelihood built under the setting has {tuple(lik.quadrature.locations.shape)} nodes")
        except Exception as e:
            from engine.runner import classify_replay_exception
            r = classify_replay_exception(e)
            bad = bad or bool(r.get("violates"))
            detail.append(r["detail"][:300])
    return {"violates": bad, "detail": "; ".join(detail) or "node count follows the argument / the setting in force at construction",
            "entry": {"module": "contracts.C13_quadrature", "function": "replay_nodes", "args": [model, list(params), clause, info]}}


@case("C13", clause="quadrature_nodes", expand=lambda ix: [(given,) for given in (False, True)], replay=lambda *a: replay_nodes(*a),
      functions=[f"{Q1}.GaussHermiteQuadrature1D.__init__", f"{Q1}.GaussHermiteQuadrature1D._locs_and_weights"])
def quadrature_init(c, given):
    """the rule has num_locs nodes: the constructor argument, or the num_gauss_hermite_locs setting in force WHEN THE OBJECT IS BUILT;
    locations / weights are numpy's hermgauss(num_locs) (dependency)"""
    it, ctx = c.it, c.ctx
    Q, S = c.size("Q"), c.size("S")
    ctx.classattrs[("gpytorch.settings.num_gauss_hermite_locs", "_global_value")] = S
    made = []

    def hermgauss(it_, ctx_, a, k):
        n = a[0]
        made.append(n)
        return VTuple([sym_tensor("hg_loc", [n.t]), sym_tensor("hg_wgt", [n.t])])

    it.optable["numpy.polynomial.hermite.hermgauss"] = hermgauss
    it.optable["torch.Tensor"] = lambda it_, ctx_, a, k: a[0]
    o = it.call(ctx, c.cls(f"{Q1}.GaussHermiteQuadrature1D"), [Q] if given else [], {})
    want = Q.t if given else S.t
    nl = c.getattr(o, "num_locs")
    c.prove("quadrature.num_locs", nl.t == want)
    c.prove("quadrature.one_hermgauss_call_with_num_locs", z3.And(z3.BoolVal(len(made) == 1), made[0].t == want) if made else z3.BoolVal(False))
    loc, wgt = c.getattr(o, "locations"), c.getattr(o, "weights")
    j = ivar("j")
    c.assume(z3.And(j >= 0, j < want))
    c.prove("quadrature.locations_are_the_nodes", z3.And(loc.dims[0].size == want, loc.at([j]) == z3.Function("hg_loc", z3.IntSort(), z3.RealSort())(j)))
    c.prove("quadrature.weights_are_the_weights", z3.And(wgt.dims[0].size == want, wgt.at([j]) == z3.Function("hg_wgt", z3.IntSort(), z3.RealSort())(j)))


MOMENT = {0: "1", 1: "0", 2: "1/2", 3: "0", 4: "3/4", 5: "0"}


@case("C13", clause="quadrature_exact", expand=lambda ix: [(p, r) for p in range(6) for r in (0, 1)], replay=lambda *a: replay_quadrature(*a),
      functions=[f"{Q1}.GaussHermiteQuadrature1D.forward"], timeout=600)
def quadrature_exact(c, p, rank):
    """monomial x^p, p < 2Q: the rule returns E_{N(m,v)}[x^p] exactly (dependency contract: Hermite moments of the nodes)"""
    it, ctx = c.it, c.ctx
    ext, idx = batch(c, rank)
    dist, m, v = gaussian(c, ext)
    o, Q, t, w = quad_obj(c)
    c.assume(2 * Q > p)
    sqrt_pi = dom_real.apply(ctx, "sqrt", dom_real.pi(ctx))
    for q in range(p + 1):  # numpy.polynomial.hermite.hermgauss: exact for weight exp(-x^2) up to degree 2Q - 1
        def body(k, q=q):
            r = w.at([k])
            for _ in range(q):
                r = r * t.at([k])
            return r
        c.assume(mk_sum(body, Q) == sqrt_pi * z3.RealVal(MOMENT[q]))

    def mono(x):
        r = z3.RealVal(1)
        for _ in range(p):
            r = r * x
        return r

    res = it.call(ctx, c.getattr(o, "forward"), [elementwise(mono), dist], {})
    mm, vv = m.at(idx), v.at(idx)
    want = {0: z3.RealVal(1), 1: mm, 2: mm * mm + vv, 3: mm * mm * mm + 3 * mm * vv, 4: mm * mm * mm * mm + 6 * mm * mm * vv + 3 * vv * vv,
            5: mm * mm * mm * mm * mm + 10 * mm * mm * mm * vv + 15 * mm * vv * vv}[p]
    c.prove_identity(f"quadrature.exact_on_monomial[{p}]", res.at(idx), want)


# ------------------------------------------------------------------ one-dimensional likelihoods -----------------------
def lik_obj(c, name, ext_param):
    """a likelihood in its constructed state; the constrained parameters (C17: constraint.transform(raw)) are arbitrary positive
    tensors of shape (*batch, 1)"""
    props = {}

    def pos(nm, lower=0):
        tns = sym_tensor(nm, ext_param + [z3.IntVal(1)])
        f = tns.meta["uf"]

        def elem(idx):
            v = f(*idx)
            c.ctx.assume(v > lower)
            return v

        tns.elem = elem
        return tns

    if name == "Laplace":
        props["noise"] = pos("noise")
        qual = f"{LK}.laplace_likelihood.LaplaceLikelihood"
    elif name == "StudentT":
        props["noise"] = pos("noise")
        props["deg_free"] = pos("deg_free", 2)
        qual = f"{LK}.student_t_likelihood.StudentTLikelihood"
    elif name == "Beta":
        props["scale"] = pos("scale")
        qual = f"{LK}.beta_likelihood.BetaLikelihood"
    else:
        qual = f"{LK}.bernoulli_likelihood.BernoulliLikelihood"
    return module_obj(c, qual, props), props


def check_conditional(c, name, d, props, f, idx):
    """the documented conditional p(y | f) (class docstrings)"""
    ctx = c.ctx
    ok = isinstance(d, VDistRecord)
    c.prove(f"{name}.forward_returns_{name}", z3.BoolVal(ok and d.kind == {"Bernoulli": "Bernoulli", "Laplace": "Laplace", "StudentT": "StudentT", "Beta": "Beta"}[name]))
    if not ok:
        return
    fi = f.at(idx)
    lead = idx[:-1] if len(idx) else []

    def par(nm):
        t = props[nm]
        return t.at([z3.IntVal(0)])

    def got(nm):
        t = d.params.get(nm)
        if t is None:
            c.fail(f"{name}.parameter_{nm}_given", "missing constructor argument")
            return z3.RealVal(0)
        return E.to_real(E.expand(ctx, t, [dd.size for dd in f.dims]).at(idx)) if len(t.dims) <= len(f.dims) else E.to_real(t.at(idx))

    if name == "Bernoulli":
        c.prove("Bernoulli.probs_is_Phi_f", got("probs") == dom_real.apply(ctx, "Phi", fi))
        c.prove("Bernoulli.no_logits", z3.BoolVal("logits" not in d.params))
    elif name == "Laplace":
        c.prove("Laplace.loc_is_f", got("loc") == fi)
        c.prove("Laplace.scale_is_sqrt_noise", got("scale") == dom_real.apply(ctx, "sqrt", par("noise")))
    elif name == "StudentT":
        c.prove("StudentT.loc_is_f", got("loc") == fi)
        c.prove("StudentT.scale_is_sqrt_noise", got("scale") == dom_real.apply(ctx, "sqrt", par("noise")))
        c.prove("StudentT.df_is_deg_free", got("df") == par("deg_free"))
    elif name == "Beta":
        mix = dom_real.sigmoid(ctx, fi) if hasattr(dom_real, "sigmoid") else dom_real.apply(ctx, "sigmoid", fi)
        s = par("scale")
        c.prove_identity("Beta.alpha_is_m_s_plus_1", got("concentration1"), mix * s + 1)
        c.prove_identity("Beta.beta_is_(1-m)_s_plus_1", got("concentration0"), (1 - mix) * s + 1)


@case("C13", clause="conditional_parameters", expand=lambda ix: [(nm,) for nm in ("Bernoulli", "Laplace", "StudentT", "Beta")], replay=lambda *a: replay_likelihoods(*a),
      functions=[f"{LK}.bernoulli_likelihood.BernoulliLikelihood.forward", f"{LK}.laplace_likelihood.LaplaceLikelihood.forward",
                 f"{LK}.student_t_likelihood.StudentTLikelihood.forward", f"{LK}.beta_likelihood.BetaLikelihood.forward"])
def conditional_parameters(c, name):
    it, ctx = c.it, c.ctx
    ext, idx = batch(c, 1)
    lik, props = lik_obj(c, name, [])
    f = sym_tensor("f", ext)
    d = it.call(ctx, c.getattr(lik, "forward"), [f], {})
    check_conditional(c, name, d, props, f, idx)


@case("C13", clause="quadrature_of_conditional", expand=lambda ix: [(nm, meth) for nm in ("Laplace", "StudentT", "Beta", "Bernoulli") for meth in ("expected_log_prob", "log_marginal")
                                                             if not (nm == "Bernoulli")],
      replay=lambda *a: replay_likelihoods(*a),
      functions=[f"{LK}.likelihood._OneDimensionalLikelihood.expected_log_prob", f"{LK}.likelihood._OneDimensionalLikelihood.log_marginal"])
def quadrature_of_conditional(c, name, meth):
    """expected_log_prob = quadrature(f -> log p(y | f)), log_marginal = log quadrature(f -> p(y | f)), p(. | f) = self.forward(f), on
    the function distribution handed in (callee contract of the quadrature module: `quadrature_forward`)"""
    it, ctx = c.it, c.ctx
    ext, idx = batch(c, 1)
    lik, props = lik_obj(c, name, [])
    dist, m, v = gaussian(c, ext)
    y = sym_tensor("y", ext)
    out = sym_tensor("quadrature_result", ext)
    oc = out.meta["uf"]
    if meth == "log_marginal":
        def oelem(i_):
            t = oc(*i_)
            ctx.assume(t > 0)
            return t
        out.elem = oelem
    seen = []
    quad = Stub("quadrature", methods={"__call__": lambda fn, d: (seen.append((fn, d)), out)[1]})
    lik.fields["_modules"].d["quadrature"] = quad
    res = it.call(ctx, c.getattr(lik, meth), [y, dist], {})
    c.prove(f"{meth}.one_quadrature_call_on_the_function_dist", z3.BoolVal(len(seen) == 1 and seen[0][1] is dist))
    if len(seen) != 1:
        return
    want_out = dom_real.apply(ctx, "log", out.at(idx)) if meth == "log_marginal" else out.at(idx)
    c.prove(f"{meth}.returns_the_quadrature_result", res.at(idx) == want_out)
    # the integrand, evaluated at arbitrary nodes x[k, i] (shape (Q, n) as the quadrature hands it)
    Qn = c.size("Q")
    x = sym_tensor("x", [Qn.t] + ext)
    k = ivar("k")
    c.assume(z3.And(k >= 0, k < Qn.t))
    g = it.call(ctx, seen[0][0], [x], {})
    ref = it.call(ctx, c.getattr(it.call(ctx, c.getattr(lik, "forward"), [x], {}), "log_prob"), [y], {})
    lp = ref.at([k] + idx)
    c.prove(f"{meth}.integrand", g.at([k] + idx) == (dom_real.apply(ctx, "exp", lp) if meth == "log_marginal" else lp))


@case("C13", clause="bernoulli", expand=lambda ix: [(r,) for r in (0, 1)], replay=lambda *a: replay_likelihoods(*a),
      functions=[f"{LK}.bernoulli_likelihood.BernoulliLikelihood.marginal", f"{LK}.bernoulli_likelihood.BernoulliLikelihood.log_marginal",
                 f"{LK}.bernoulli_likelihood.BernoulliLikelihood.expected_log_prob"])
def bernoulli(c, rank):
    it, ctx = c.it, c.ctx
    ext, idx = batch(c, rank)
    lik, props = lik_obj(c, "Bernoulli", [])
    dist, m, v = gaussian(c, ext)
    d = it.call(ctx, c.getattr(lik, "marginal"), [dist], {})
    ok = isinstance(d, VDistRecord) and d.kind == "Bernoulli" and "probs" in d.params
    c.prove("Bernoulli.marginal_is_Bernoulli", z3.BoolVal(ok))
    if not ok:
        return
    link = dom_real.rdiv(ctx, m.at(idx), dom_real.apply(ctx, "sqrt", 1 + v.at(idx)))
    c.prove("Bernoulli.marginal_probs_is_Phi(m/sqrt(1+v))", d.params["probs"].at(idx) == dom_real.apply(ctx, "Phi", link))
    y = sym_tensor("y", ext)
    lm = it.call(ctx, c.getattr(lik, "log_marginal"), [y, dist], {})
    yi = y.at(idx)
    P = dom_real.apply(ctx, "Phi", link)
    c.prove("Bernoulli.log_marginal_is_marginal_log_prob", lm.at(idx) == yi * dom_real.apply(ctx, "log", P) + (1 - yi) * dom_real.apply(ctx, "log", 1 - P))
    # expected_log_prob: labels in {0, 1}: integrand f -> log_normal_cdf((2y - 1) f)
    seen = []
    out = sym_tensor("quadrature_result", ext)
    lik.fields["_modules"].d["quadrature"] = Stub("quadrature", methods={"__call__": lambda fn, dd: (seen.append((fn, dd)), out)[1]})
    lncdf_calls = []
    LN = z3.Function("log_normal_cdf", z3.RealSort(), z3.RealSort())

    def hook(it_, ctx_, fi, args, kwargs):
        if not isinstance(fi, tuple) and fi.name == "log_normal_cdf":
            lncdf_calls.append(args[0])
            return E.pointwise(ctx_, [args[0]], lambda z: LN(E.to_real(z)), sort="real")
        return NotImplemented

    it.call_hooks.append(hook)
    # precondition: every label is 0 or 1 (stated at each index the code or the contract looks at)
    yf = y.meta["uf"]
    yc = z3.Real("y")

    def yelem(i_):
        t = yf(*i_) if yf is not None else yc
        ctx.assume(z3.Or(t == 0, t == 1))
        return t

    y.elem = yelem
    res = it.call(ctx, c.getattr(lik, "expected_log_prob"), [y, dist], {})
    c.instantiate_facts([idx])
    c.prove("Bernoulli.expected_log_prob.one_quadrature_call", z3.BoolVal(len(seen) == 1 and seen[0][1] is dist))
    if len(seen) == 1:
        c.prove("Bernoulli.expected_log_prob.returns_quadrature", res.at(idx) == out.at(idx))
        Qn = c.size("Q")
        x = sym_tensor("x", [Qn.t] + ext)
        k = ivar("k")
        c.assume(z3.And(k >= 0, k < Qn.t))
        g = it.call(ctx, seen[0][0], [x], {})
        c.instantiate_facts([idx])
        c.prove("Bernoulli.expected_log_prob.integrand_is_log_Phi((2y-1)f)", g.at([k] + idx) == LN((2 * yi - 1) * x.at([k] + idx)))


@case("C13", clause="softmax", expand=lambda ix: [(mix, br) for mix in (True, False) for br in (0, 1)], replay=lambda *a: replay_softmax(*a),
      functions=[f"{LK}.softmax_likelihood.SoftmaxLikelihood.forward"])
def softmax_forward(c, mixing, br):
    """p(y | f) = Categorical(logits = W f) per data point (W = I without mixing weights), function_samples of shape
    (*batch, num_data, num_features) as documented -- for every num_data, num_data == num_features included"""
    it, ctx = c.it, c.ctx
    n, F, C = c.size("n"), c.size("F"), c.size("C")
    bs = [c.size("b").t] if br else []
    W = sym_tensor("W", [C.t, F.t])
    nf = F if mixing else C
    lik = module_obj(c, f"{LK}.softmax_likelihood.SoftmaxLikelihood", {}, num_features=nf, num_classes=C, mixing_weights=W if mixing else NONE)
    f = sym_tensor("f", bs + [n.t, nf.t])
    square = ctx.branch(n.t == nf.t)
    tag = "num_data == num_features" if square else "num_data != num_features"
    d = it.call(ctx, c.getattr(lik, "forward"), [f], {})
    ok = isinstance(d, VDistRecord) and d.kind == "Categorical" and "logits" in d.params and "probs" not in d.params
    c.prove(f"softmax.returns_Categorical_with_logits[{tag}]", z3.BoolVal(ok))
    if not ok:
        return
    lg = d.params["logits"]
    b = [ivar("b") for _ in bs]
    for v_, e in zip(b, bs):
        c.assume(z3.And(v_ >= 0, v_ < e))
    i, cl = ivar("i"), ivar("c")
    c.assume(z3.And(i >= 0, i < n.t, cl >= 0, cl < C.t))
    want_dims = bs + [n.t, C.t]
    c.prove(f"softmax.logits_rank[{tag}]", z3.BoolVal(len(lg.dims) == len(want_dims)))
    if len(lg.dims) != len(want_dims):
        return
    c.prove(f"softmax.logits_shape[{tag}]", z3.And(*[dd.size == e for dd, e in zip(lg.dims, want_dims)]))
    want = mk_sum(lambda k: f.at(b + [i, k]) * W.at([cl, k]), F.t) if mixing else f.at(b + [i, cl])
    c.prove(f"softmax.logits_are_W_f[{tag}]", lg.at(b + [i, cl]) == want)


def replay_softmax(model, params, clause, info):
    """the real likelihood on correctly laid out (num_data x num_features) inputs, num_data == num_features or not as the failed
    obligation says"""
    import torch
    import warnings
    from gpytorch.likelihoods import SoftmaxLikelihood
    mixing, br = params
    square = "==" in clause
    torch.manual_seed(0)
    F, C = 3, 4
    n = F if square and mixing else (C if square else 5)
    lik = SoftmaxLikelihood(num_features=F if mixing else None, num_classes=C, mixing_weights=mixing).double()
    nf = F if mixing else C
    f = torch.randn(*([2] if br else []), n, nf, dtype=torch.double)
    try:
        with warnings.catch_warnings():
            warnings.simplefilter("ignore")
            got = lik.forward(f).logits
        want = f @ lik.mixing_weights.t() if mixing else f
        want = want - want.logsumexp(-1, keepdim=True)
        bad = got.shape != want.shape or not torch.allclose(got, want, atol=1e-10)
        detail = f"num_data={n}, num_features={nf}: Categorical logits {'differ from' if bad else 'equal'} log_softmax(W f)"
    except Exception as e:
        from engine.runner import classify_replay_exception
        r = classify_replay_exception(e)
        bad, detail = r.get("violates"), r["detail"]
    return {"violates": bad, "detail": detail,
            "entry": {"module": "contracts.C13_quadrature", "function": "replay_softmax", "args": [model, list(params), clause, info]}}


def replay_quadrature(model, params, clause, info):
    from bounded import C13_numeric
    r = C13_numeric.run("quick", 0, only="quadrature")
    return {"violates": bool(r["violations"]), "detail": "; ".join(f"{v['key']}: {v['detail']}" for v in r["violations"])[:600] or "quadrature agrees with exact Gaussian moments on the real code",
            "entry": {"module": "contracts.C13_quadrature", "function": "replay_quadrature", "args": [model, list(params), clause, info]}}


def replay_likelihoods(model, params, clause, info):
    from bounded import C13_numeric
    r = C13_numeric.run("quick", 0, only="likelihood")
    return {"violates": bool(r["violations"]), "detail": "; ".join(f"{v['key']}: {v['detail']}" for v in r["violations"])[:600] or "likelihood integrals agree with adaptive integration on the real code",
            "entry": {"module": "contracts.C13_quadrature", "function": "replay_likelihoods", "args": [model, list(params), clause, info]}}


from contracts import C19_backward as _c19  # noqa: E402


@case("C13", clause="log_normal_cdf", expand=lambda ix: [(0,)], replay=lambda *a: _c19.replay_lncdf(*a), timeout=300,
      functions=["gpytorch.functions._log_normal_cdf.LogNormalCDF.forward", "gpytorch.functions._log_normal_cdf.LogNormalCDF.backward"])
def log_normal_cdf_branches(c, rank):
    """the three branches of log_normal_cdf partition the reals and compute the stated rational / asymptotic / direct expressions
    (coefficients read from the source), and backward is their phi/Phi-hat (the contract shared with C19); the ACCURACY of the
    approximation is a numerical-analysis bound checked in the bounded tier"""
    return _c19.log_normal_cdf(c, rank)
